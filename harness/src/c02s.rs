//! C02, sharding partial decoder: real sharded arrays (one or two sharding levels, index at either end, either index
//! byte order, with/without crc32c on the index, modelled inner chains, optional transpose before / crc32c after the
//! outermost sharding codec), random data with some inner chunks all fill (so they are missing from the shard), the raw
//! shard value dumped from the store, and `array.partial_decoder(chunk).partial_decode(regions)` for every sub-box of
//! small shards plus random region lists. Also corrupted values (index entries reaching outside the value, broken index
//! checksum, truncated value) and a few regions outside the shard. Every line is stateless: it carries the raw value.
use crate::arr::*;
use crate::util::*;
use std::collections::BTreeMap;

/// chain tokens (`|`-separated) -> codec metadata JSON list items
fn tok_json(tok: &str) -> Option<String> {
    let p: Vec<&str> = tok.split(':').collect();
    match p[0] {
        "transpose" => Some(format!("{{\"name\":\"transpose\",\"configuration\":{{\"order\":[{}]}}}}", if p[1] == "-" { String::new() } else { p[1].to_string() })),
        "bytes" => Some(if p[2] == "1" && p[1] == "little" && p.get(3) == Some(&"noendian") { "{\"name\":\"bytes\"}".to_string() } else { format!("{{\"name\":\"bytes\",\"configuration\":{{\"endian\":\"{}\"}}}}", p[1]) }),
        "crc32c" => Some("{\"name\":\"crc32c\"}".to_string()),
        "shuffle" => Some(format!("{{\"name\":\"numcodecs.shuffle\",\"configuration\":{{\"elementsize\":{}}}}}", p[1])),
        _ => None,
    }
}
fn toks_json(s: &str) -> Option<Vec<String>> {
    if s == "-" { return Some(vec![]); }
    s.split('|').map(tok_json).collect()
}

/// the `codecs` JSON of the array from the line's parameters
fn codecs_json(m: &BTreeMap<String, String>) -> Option<String> {
    let ishs = pnll(&m["ishs"]);
    let locs: Vec<&str> = m["locs"].split(';').collect();
    let iends: Vec<&str> = m["iends"].split(';').collect();
    let icrcs: Vec<&str> = m["icrcs"].split(';').collect();
    let mut inner = format!("[{}]", toks_json(&m["chain"])?.join(","));
    for k in (0..ishs.len()).rev() {
        let idx = if icrcs[k] == "1" { format!("[{{\"name\":\"bytes\",\"configuration\":{{\"endian\":\"{}\"}}}},{{\"name\":\"crc32c\"}}]", iends[k]) }
            else { format!("[{{\"name\":\"bytes\",\"configuration\":{{\"endian\":\"{}\"}}}}]", iends[k]) };
        let sh = format!("{{\"name\":\"sharding_indexed\",\"configuration\":{{\"chunk_shape\":[{}],\"codecs\":{},\"index_codecs\":{},\"index_location\":\"{}\"}}}}",
            ishs[k].iter().map(|x| x.to_string()).collect::<Vec<_>>().join(","), inner, idx, locs[k]);
        if k == 0 {
            let mut all = toks_json(m.get("oa2a").map(|s| s.as_str()).unwrap_or("-"))?;
            all.push(sh);
            all.extend(toks_json(m.get("ob2b").map(|s| s.as_str()).unwrap_or("-"))?);
            inner = format!("[{}]", all.join(","));
        } else { inner = format!("[{}]", sh); }
    }
    Some(inner)
}

fn meta_json(m: &BTreeMap<String, String>) -> Result<String, String> {
    let ssh = pnl(&m["ssh"]);
    let shape = ssh.iter().map(|x| x.to_string()).collect::<Vec<_>>().join(",");
    Ok(format!(
        "{{\"zarr_format\":3,\"node_type\":\"array\",\"shape\":[{}],\"data_type\":\"{}\",\"chunk_grid\":{{\"name\":\"regular\",\"configuration\":{{\"chunk_shape\":[{}]}}}},\"chunk_key_encoding\":{{\"name\":\"default\",\"configuration\":{{\"separator\":\"/\"}}}},\"fill_value\":{},\"codecs\":{}}}",
        shape, m["dtype"], shape, String::from_utf8(unhex(&m["fillj"])).unwrap(), codecs_json(m).ok_or("codecs")?))
}

fn open(m: &BTreeMap<String, String>) -> Result<ArrCtx, String> {
    let meta = meta_json(m)?;
    let mut mm = BTreeMap::new();
    mm.insert("store".to_string(), "memory".to_string());
    mm.insert("path".to_string(), "/a".to_string());
    mm.insert("meta".to_string(), hex(meta.as_bytes()));
    mm.insert("es".to_string(), m["es"].clone());
    open_ctx(&mm)
}

/// `route=async`: `Array::async_partial_decoder` (`AsyncShardingPartialDecoder`) over an async store holding the same raw bytes
#[cfg(not(feature = "zasync"))]
fn exec_async(_m: &BTreeMap<String, String>) -> String { "skip".into() }
#[cfg(feature = "zasync")]
fn exec_async(m: &BTreeMap<String, String>) -> String {
    use std::sync::Arc;
    use zarrs::array::{codec::CodecOptions, Array};
    use zarrs::storage::store::MemoryStore;
    use zarrs::storage::WritableStorageTraits;
    let es: Option<usize> = Some(m["es"].parse().unwrap());
    let meta = match meta_json(m) { Ok(s) => s, Err(_) => return "err-open".into() };
    let inner = Arc::new(MemoryStore::new());
    if inner.set(&meta_key("/a"), meta.into_bytes().into()).is_err() { return "err-open".into(); }
    let astore: zarrs::storage::AsyncReadableWritableListableStorage = Arc::new(crate::c07::AsyncMem(inner.clone()));
    let rt = tokio::runtime::Builder::new_current_thread().enable_all().build().unwrap();
    let c = vec![0u64; pnl(&m["ssh"]).len()];
    let rs: Vec<_> = m["rs"].split('|').map(parse_subset).collect();
    let raw = m["raw"].clone();
    rt.block_on(async {
        let a = match Array::async_open(astore.clone(), "/a").await { Ok(a) => a, Err(_) => return "err-open".to_string() };
        if raw != "absent" { if inner.set(&a.chunk_key(&c), unhex(&raw).into()).is_err() { return "err-set".into(); } }
        let o = CodecOptions::default();
        let pd = match a.async_partial_decoder_opt(&c, &o).await { Ok(p) => p, Err(e) => { if std::env::var("VERIF_ERR_MSG").is_ok() { eprintln!("ERR: {}", e); } return "err".to_string() } };
        match pd.partial_decode(&rs, &o).await {
            Ok(parts) => format!("val {}", parts.into_iter().map(|b| show_elems(&from_array_bytes(es, b))).collect::<Vec<_>>().join("|")),
            Err(e) => { if std::env::var("VERIF_ERR_MSG").is_ok() { eprintln!("ERR: {}", e); } "err".into() }
        }
    })
}

pub fn exec(line: &str) -> String {
    let (_, m) = parse_line(line);
    guarded(|| {
        if m.get("route").map(|s| s == "async").unwrap_or(false) { return exec_async(&m); }
        use zarrs::storage::WritableStorageTraits;
        let ctx = match open(&m) { Ok(c) => c, Err(e) => { if std::env::var("VERIF_ERR_MSG").is_ok() { eprintln!("ERR: {}", e); } return "err-open".into() } };
        let a = ctx.array.clone();
        let c = vec![0u64; pnl(&m["ssh"]).len()];
        if m["raw"] != "absent" {
            if ctx.store.store.set(&a.chunk_key(&c), unhex(&m["raw"]).into()).is_err() { return "err-set".into(); }
        }
        let rs: Vec<_> = m["rs"].split('|').map(parse_subset).collect();
        let pd = match a.partial_decoder_opt(&c, &ctx.opts) { Ok(p) => p, Err(e) => { if std::env::var("VERIF_ERR_MSG").is_ok() { eprintln!("ERR: {}", e); } return "err".into() } };
        let parts = match pd.partial_decode(&rs, &ctx.opts) { Ok(p) => p, Err(e) => { if std::env::var("VERIF_ERR_MSG").is_ok() { eprintln!("ERR: {}", e); } return "err".into() } };
        let parts: Vec<Vec<Vec<u8>>> = parts.into_iter().map(|b| from_array_bytes(ctx.es, b)).collect();
        format!("val {}", parts.iter().map(|p| show_elems(p)).collect::<Vec<_>>().join("|"))
    })
}

fn all_boxes(shape: &[u64]) -> Vec<(Vec<u64>, Vec<u64>)> {
    let mut out: Vec<(Vec<u64>, Vec<u64>)> = vec![(vec![], vec![])];
    for &a in shape {
        let mut nxt = vec![];
        for (s, n) in &out { for st in 0..a { for len in 1..=(a - st) { let mut s2 = s.clone(); s2.push(st); let mut n2 = n.clone(); n2.push(len); nxt.push((s2, n2)); } } }
        out = nxt;
    }
    out
}

fn perm(rng: &mut Rng, rank: usize) -> Vec<u64> {
    let mut p: Vec<u64> = (0..rank as u64).collect();
    for i in (1..rank).rev() { let j = rng.below(i as u64 + 1) as usize; p.swap(i, j); }
    p
}

fn crc32c_suffix(b: &[u8]) -> Vec<u8> {
    use zarrs::array::codec::{BytesToBytesCodecTraits, CodecOptions, Crc32cCodec};
    let enc = Crc32cCodec::new().encode(b.to_vec().into(), &CodecOptions::default()).unwrap();
    enc[b.len()..].to_vec()
}

fn put64(v: &mut [u8], at: usize, x: u64, big: bool) {
    let b = if big { x.to_be_bytes() } else { x.to_le_bytes() };
    v[at..at + 8].copy_from_slice(&b);
}
fn get64(v: &[u8], at: usize, big: bool) -> u64 {
    let mut b = [0u8; 8]; b.copy_from_slice(&v[at..at + 8]);
    if big { u64::from_be_bytes(b) } else { u64::from_le_bytes(b) }
}

pub fn generate(tier: &str, seed: u64) -> Vec<String> {
    let mut rng = Rng::new(seed ^ 0xC025);
    let thorough = tier == "thorough";
    let ncases = if thorough { 600 } else { 60 };
    let dts: Vec<DType> = dtypes().into_iter().filter(|d| d.es.is_some() && d.name != "bool").collect();
    let mut out = vec![];
    let mut k = 0;
    let mut attempts = 0;
    while k < ncases && attempts < ncases * 20 {
        attempts += 1;
        let dt = rng.pick(&dts).clone();
        let es = dt.es.unwrap();
        let fill = rng.pick(&dt.fills).clone();
        let rank = if rng.chance(1, 25) { 0 } else { rng.range(1, 3) as usize };
        let nested = rng.chance(1, 4);
        // shapes in the coordinates the outermost sharding codec sees (after the optional outer transpose)
        let small = rank == 3 || nested;
        let innermost: Vec<u64> = (0..rank).map(|_| rng.range(1, if small { 2 } else { 3 })).collect();
        let mid: Vec<u64> = innermost.iter().map(|&x| x * rng.range(1, 2)).collect();
        let ish0: Vec<u64> = if nested { mid.clone() } else { innermost.clone() };
        let ssh_enc: Vec<u64> = ish0.iter().map(|&x| x * rng.range(1, if small { 2 } else { 3 })).collect();
        let ishs: Vec<Vec<u64>> = if nested { vec![ish0.clone(), innermost.clone()] } else { vec![ish0.clone()] };
        let nl_ = ishs.len();
        let locs: Vec<&str> = (0..nl_).map(|_| if rng.chance(1, 2) { "end" } else { "start" }).collect();
        let iends: Vec<&str> = (0..nl_).map(|_| if rng.chance(1, 2) { "little" } else { "big" }).collect();
        let icrcs: Vec<&str> = (0..nl_).map(|_| if rng.chance(1, 2) { "1" } else { "0" }).collect();
        // outer array-to-array / bytes-to-bytes codecs around the outermost sharding codec
        let oorder: Option<Vec<u64>> = if rank >= 2 && rng.chance(1, 5) { Some(perm(&mut rng, rank)) } else { None };
        // decoded shard shape: ssh_enc[k] = ssh[order[k]]
        let ssh: Vec<u64> = match &oorder { Some(o) => { let mut s = vec![0; rank]; for (kk, &ax) in o.iter().enumerate() { s[ax as usize] = ssh_enc[kk]; } s } None => ssh_enc.clone() };
        let eff: Vec<u64> = match &oorder { Some(o) => { let mut s = vec![0; rank]; for (kk, &ax) in o.iter().enumerate() { s[ax as usize] = innermost[kk]; } s } None => innermost.clone() };
        let oa2a = match &oorder { Some(o) => format!("transpose:{}", nl(o)), None => "-".to_string() };
        let ob2b = if rng.chance(1, 5) { "crc32c" } else { "-" };
        // leaf chain
        let mut toks: Vec<String> = vec![];
        if rank >= 1 && rng.chance(1, 3) { toks.push(format!("transpose:{}", nl(&perm(&mut rng, rank)))); }
        let unit = if dt.name == "complex64" { 4 } else if dt.name.starts_with('r') { 1 } else { es };
        if es == 1 { toks.push("bytes:little:1:noendian".into()); } else { toks.push(format!("bytes:{}:{}", if rng.chance(1, 2) { "big" } else { "little" }, unit)); }
        for i in 0..rng.below(3) {
            match rng.below(3) { 0 if i == 0 => toks.push(format!("shuffle:{}", es)), _ => toks.push("crc32c".into()) }
        }
        let chain = toks.join("|");
        let base = format!("dtype={} es={} fill={} fillj={} ssh={} ishs={} locs={} iends={} icrcs={} oa2a={} ob2b={} chain={}",
            dt.name, es, hex(&fill.1), hex(fill.0.as_bytes()), nl(&ssh), nll(&ishs), locs.join(";"), iends.join(";"), icrcs.join(";"), oa2a, ob2b, chain);
        let (_, m) = parse_line(&format!("c02s pd {}", base));
        let ctx = match guarded_res(|| open(&m)) { Ok(c) => c, Err(_) => continue };
        // data: per innermost block either all fill or random; now and then the whole shard is fill (absent value)
        let nel: u64 = ssh.iter().product();
        let whole_fill = rng.chance(1, 12);
        let mut block_fill: BTreeMap<Vec<u64>, bool> = BTreeMap::new();
        let mut data: Vec<Vec<u8>> = vec![];
        for q in 0..nel {
            let mut idx = vec![0u64; rank]; let mut r = q;
            for d in (0..rank).rev() { idx[d] = r % ssh[d]; r /= ssh[d]; }
            let blk: Vec<u64> = idx.iter().zip(&eff).map(|(i, e)| i / e).collect();
            let bf = *block_fill.entry(blk).or_insert_with(|| rng.chance(1, 3));
            if whole_fill || bf { data.push(fill.1.clone()); } else { data.push(rng.bytes(es)); }
        }
        let c = vec![0u64; rank];
        let a = ctx.array.clone();
        let stored = guarded(|| match a.store_chunk_opt(&c, to_array_bytes(Some(es), &data), &ctx.opts) { Ok(()) => "ok".into(), Err(_) => "err".into() });
        if stored != "ok" { continue; }
        use zarrs::storage::ReadableStorageTraits;
        let raw: Option<Vec<u8>> = match ctx.store.store.get(&a.chunk_key(&c)) { Ok(Some(b)) => Some(b.to_vec()), Ok(None) => None, Err(_) => continue };
        k += 1;
        let rawh = match &raw { Some(b) => hex(b), None => "absent".to_string() };
        let good = format!("c02s pd {} corrupt=0 data={} raw={}", base, show_elems(&data), rawh);
        let boxes = all_boxes(&ssh);
        let pick: Vec<(Vec<u64>, Vec<u64>)> = if boxes.len() <= 120 { boxes.clone() } else { (0..60).map(|_| rng.pick(&boxes).clone()).collect() };
        for (s, n) in &pick { out.push(format!("{} rs={}+{}", good, nl(s), nl(n))); }
        for _ in 0..(if thorough { 10 } else { 5 }) {
            let cnt = rng.range(2, 4);
            let mut rs: Vec<String> = (0..cnt).map(|_| { let (s, n) = rng.pick(&boxes).clone(); format!("{}+{}", nl(&s), nl(&n)) }).collect();
            if rank > 0 && rng.chance(1, 3) {
                // an empty region somewhere in the list
                let (s, mut n) = rng.pick(&boxes).clone(); let d = rng.below(rank as u64) as usize; n[d] = 0;
                let at = rng.below(rs.len() as u64 + 1) as usize; rs.insert(at, format!("{}+{}", nl(&s), nl(&n)));
            }
            out.push(format!("{} rs={}", good, rs.join("|")));
        }
        // a region of the wrong rank
        out.push(format!("{} rs={}+{}", good, nl(&vec![0u64; rank + 1]), nl(&vec![1u64; rank + 1])));
        // regions outside the shard (not covered by the property; the model mirrors what the code does with them)
        if rank > 0 {
            for _ in 0..2 {
                let d = rng.below(rank as u64) as usize;
                let (mut s, mut n) = rng.pick(&boxes).clone();
                if rng.chance(1, 2) { s[d] = ssh[d] + rng.below(2) * eff[d]; n[d] = 1; } else { n[d] = ssh[d] - s[d] + rng.range(1, 2); }
                out.push(format!("c02s pd {} corrupt=0 oob=1 raw={} rs={}+{}", base, rawh, nl(&s), nl(&n)));
            }
        }
        // corrupted values: only the outermost index, and only without an outer bytes-to-bytes codec
        if let Some(rawv) = &raw {
            if ob2b == "-" {
                let cps: Vec<u64> = ssh_enc.iter().zip(&ish0).map(|(s, i)| s / i).collect();
                let n: usize = cps.iter().product::<u64>() as usize;
                let crc = icrcs[0] == "1";
                let isz = 16 * n + if crc { 4 } else { 0 };
                let big = iends[0] == "big";
                if rawv.len() >= isz {
                    let ibase = if locs[0] == "end" { rawv.len() - isz } else { 0 };
                    let len = rawv.len() as u64;
                    for _ in 0..(if thorough { 6 } else { 4 }) {
                        let e = rng.below(n as u64) as usize;
                        let (o0, s0) = (get64(rawv, ibase + 16 * e, big), get64(rawv, ibase + 16 * e + 8, big));
                        let live = !(o0 == u64::MAX && s0 == u64::MAX);
                        let (no, ns) = match rng.below(9) {
                            0 if live => (o0, s0 + 1000),                       // wrong size: reaches outside, start inside
                            1 => (len + rng.below(5), rng.range(1, 9)),         // wholly outside
                            2 => (u64::MAX - 1, rng.range(2, 9)),               // offset + size overflows
                            3 if live => (len - rng.range(0, s0.min(len)), s0), // right size, straddles the end
                            4 => (rng.below(len + 1), u64::MAX),                // absurd size
                            5 if live => (len + rng.below(3), s0),              // right size, wholly outside
                            6 if live => (o0, if s0 > 1 && rng.chance(1, 2) { s0 - 1 } else { s0 + 1 }), // wrong size, inside
                            7 if live => (rng.below(len.saturating_sub(s0) + 1), s0), // right size, elsewhere inside the value
                            _ => (u64::MAX, rng.below(8)),                      // half a sentinel
                        };
                        let mut v = rawv.clone();
                        put64(&mut v, ibase + 16 * e, no, big);
                        put64(&mut v, ibase + 16 * e + 8, ns, big);
                        if crc { let c4 = crc32c_suffix(&v[ibase..ibase + 16 * n]); v[ibase + 16 * n..ibase + 16 * n + 4].copy_from_slice(&c4); }
                        let bad = format!("c02s pd {} corrupt=1 raw={}", base, hex(&v));
                        // requests touching the inner chunk, and others
                        for _ in 0..4 { let (s, nn) = rng.pick(&boxes).clone(); out.push(format!("{} rs={}+{}", bad, nl(&s), nl(&nn))); }
                        out.push(format!("{} rs={}+{}", bad, nl(&vec![0u64; rank]), nl(&ssh)));
                    }
                    if crc {
                        let mut v = rawv.clone(); let at = ibase + rng.below(isz as u64) as usize; v[at] ^= 0x40;
                        let (s, nn) = rng.pick(&boxes).clone();
                        out.push(format!("c02s pd {} corrupt=1 raw={} rs={}+{}", base, hex(&v), nl(&s), nl(&nn)));
                    }
                    // truncated values
                    for cut in [isz.saturating_sub(1), rng.below(rawv.len() as u64) as usize] {
                        let v = rawv[..cut.min(rawv.len())].to_vec();
                        let (s, nn) = rng.pick(&boxes).clone();
                        out.push(format!("c02s pd {} corrupt=1 raw={} rs={}+{}", base, hex(&v), nl(&s), nl(&nn)));
                    }
                    // index at the start, the last byte of the value removed (both routes: the synchronous decoder reads
                    // the bytes a region needs, the asynchronous one whole inner chunks)
                    if locs[0] == "start" && rawv.len() > isz {
                        let v = rawv[..rawv.len() - 1].to_vec();
                        let some: Vec<(Vec<u64>, Vec<u64>)> = if boxes.len() <= 36 { boxes.clone() } else { (0..16).map(|_| rng.pick(&boxes).clone()).collect() };
                        for (s, nn) in &some { out.push(format!("c02s pd {} corrupt=1 trunc=1 raw={} rs={}+{}", base, hex(&v), nl(s), nl(nn))); }
                    }
                }
            }
        }
    }
    // the asynchronous twin (`route=async`) of about half of the request lines: same raw value, same regions
    let mut all = Vec::with_capacity(out.len() * 3 / 2);
    for (i, l) in out.into_iter().enumerate() {
        let twin = if i % 2 == 0 || l.contains(" trunc=1 ") { Some(l.replacen("c02s pd ", "c02s pd route=async ", 1)) } else { None };
        all.push(l);
        if let Some(t) = twin { all.push(t); }
    }
    all
}
