//! C20: store failures surface as errors and leave chunk-granular state. A fault-injecting store wrapper fails the
//! k-th store operation; for every k up to the number of operations of the fault-free run the harness checks the
//! result class, the per-key state (previous or intended value), convergence of a retry and that failed reads are
//! not cached.
use crate::arr::*;
use crate::c08::DynStore;
use crate::util::*;
use std::collections::BTreeMap;
use std::sync::atomic::{AtomicI64, AtomicU64, Ordering};
use std::sync::Arc;
use zarrs::array::{Array, ArrayChunkCacheExt, ChunkCacheDecodedLruChunkLimit, ChunkCacheEncodedLruChunkLimit};
use zarrs::array_subset::ArraySubset;
use zarrs::group::{Group, GroupBuilder};
use zarrs::storage::byte_range::ByteRange;
use zarrs::storage::{
    Bytes, ListableStorageTraits, MaybeBytes, ReadableStorageTraits, StorageError, StoreKey, StoreKeyOffsetValue, StoreKeys,
    StoreKeysPrefixes, StorePrefix, WritableStorageTraits,
};

/// fails the operation whose ordinal equals `fail_at` (1-based; 0 = never); counts operations
/// and records the operations (kind + key) in the order in which they arrive
pub struct FaultStore { inner: DynStore, count: AtomicU64, fail_at: AtomicI64, trace: std::sync::Mutex<Vec<(char, String)>>, failed: std::sync::Mutex<String> }
impl FaultStore {
    fn tick(&self, kind: char, key: &str) -> Result<(), StorageError> {
        let mut tr = self.trace.lock().unwrap();
        let n = self.count.fetch_add(1, Ordering::SeqCst) + 1;
        if self.fail_at.load(Ordering::SeqCst) == n as i64 {
            // the failing operation and the one before it on the same key, IN THIS RUN (per-chunk tasks arrive in any order)
            let prev = tr.iter().rev().find(|(_, kk)| kk == key).map(|x| x.0).unwrap_or('-');
            *self.failed.lock().unwrap() = format!("{}{}{}", prev, kind, key);
        }
        tr.push((kind, key.to_string()));
        drop(tr);
        if self.fail_at.load(Ordering::SeqCst) == n as i64 { Err(StorageError::Other("injected fault".into())) } else { Ok(()) }
    }
    /// the operations since the last call: `g<key>` get / partial get, `s<key>` set, `e<key>` erase, `l<prefix>` list_dir, ...;
    /// `by_key`: stably sorted by key (the per-chunk closures of a multi-chunk method run in no particular order; the
    /// order of the operations on ONE key is kept)
    fn take_trace(&self, by_key: bool) -> String {
        let mut t: Vec<(char, String)> = std::mem::take(&mut *self.trace.lock().unwrap());
        if by_key { t.sort_by(|a, b| a.1.cmp(&b.1)); }
        if t.is_empty() { "-".into() } else { t.iter().map(|(k, key)| format!("{}{}", k, key)).collect::<Vec<_>>().join(",") }
    }
}
impl ReadableStorageTraits for FaultStore {
    fn get(&self, key: &StoreKey) -> Result<MaybeBytes, StorageError> { self.tick('g', key.as_str())?; self.inner.get(key) }
    fn get_partial_values_key(&self, key: &StoreKey, r: &[ByteRange]) -> Result<Option<Vec<Bytes>>, StorageError> { self.tick('g', key.as_str())?; self.inner.get_partial_values_key(key, r) }
    fn size_key(&self, key: &StoreKey) -> Result<Option<u64>, StorageError> { self.tick('z', key.as_str())?; self.inner.size_key(key) }
}
impl WritableStorageTraits for FaultStore {
    fn set(&self, key: &StoreKey, value: Bytes) -> Result<(), StorageError> { self.tick('s', key.as_str())?; self.inner.set(key, value) }
    fn set_partial_values(&self, kov: &[StoreKeyOffsetValue]) -> Result<(), StorageError> { self.tick('w', kov.first().map(|k| k.key().as_str()).unwrap_or(""))?; self.inner.set_partial_values(kov) }
    fn erase(&self, key: &StoreKey) -> Result<(), StorageError> { self.tick('e', key.as_str())?; self.inner.erase(key) }
    fn erase_prefix(&self, p: &StorePrefix) -> Result<(), StorageError> { self.tick('x', p.as_str())?; self.inner.erase_prefix(p) }
}
impl ListableStorageTraits for FaultStore {
    fn list(&self) -> Result<StoreKeys, StorageError> { self.tick('L', "")?; self.inner.list() }
    fn list_prefix(&self, p: &StorePrefix) -> Result<StoreKeys, StorageError> { self.tick('P', p.as_str())?; self.inner.list_prefix(p) }
    fn list_dir(&self, p: &StorePrefix) -> Result<StoreKeysPrefixes, StorageError> { self.tick('l', p.as_str())?; self.inner.list_dir(p) }
    fn size_prefix(&self, p: &StorePrefix) -> Result<u64, StorageError> { self.tick('Z', p.as_str())?; self.inner.size_prefix(p) }
}

type Snap = BTreeMap<String, Vec<u8>>;
fn snapshot(s: &DynStore) -> Snap { s.list().unwrap().iter().map(|k| (k.as_str().to_string(), s.get(k).unwrap().unwrap().to_vec())).collect() }
fn restore(s: &DynStore, snap: &Snap) { s.erase_prefix(&StorePrefix::root()).unwrap(); for (k, v) in snap { s.set(&StoreKey::new(k.clone()).unwrap(), v.clone().into()).unwrap(); } }

pub fn exec_op(ctx: &mut ArrCtx, verb: &str, m: &BTreeMap<String, String>, line: &str) -> String {
    if verb != "fault_sweep" && verb != "fault_sweep_pe" && verb != "fault_sweep_read" && verb != "fault_meta" { return crate::arr::exec_op(ctx, verb, m); }
    let base: DynStore = ctx.store.store.clone();
    let fs = Arc::new(FaultStore { inner: base.clone(), count: AtomicU64::new(0), fail_at: AtomicI64::new(0), trace: std::sync::Mutex::new(vec![]), failed: std::sync::Mutex::new(String::new()) });
    let fsd: DynStore = fs.clone();
    let array = match Array::open(fsd.clone(), &ctx.path) { Ok(a) => Arc::new(a), Err(_) => return "err-open".into() };
    let mut opts = ctx.opts.clone();
    opts.set_concurrent_target(1);
    let (v, mm) = parse_line(line);
    // the wrapped operation: `c20 op fault_sweep <verb> args...`
    let inner_verb = v.get(3).cloned().unwrap_or_default();
    let mk_ctx = |store: DynStore, array: Arc<Arr>| ArrCtx { store: crate::c08::StoreCtx { kind: "shared".into(), store, dir: None }, array, path: ctx.path.clone(), es: ctx.es, opts: opts.clone() };
    match verb {
        "fault_sweep" | "fault_sweep_pe" => {
            // `fault_sweep_pe` (the sharding partial encoder, an experimental write path): the final state is compared as
            // DECODED CONTENTS (an appended and a compacted shard hold the same chunk in different bytes), and `torn` is
            // informational (the property's previous-or-intended clause is about the default whole-chunk path)
            let pe = verb == "fault_sweep_pe";
            let full = ArraySubset::new_with_shape(array.shape().to_vec());
            let read_all = || -> String { std::panic::catch_unwind(std::panic::AssertUnwindSafe(|| array.retrieve_array_subset_opt(&full, &opts).map(|b| hex(&b.into_fixed().map(|x| x.into_owned()).unwrap_or_default())).unwrap_or("err".into()))).unwrap_or("panic".into()) };
            let snap0 = snapshot(&base);
            // fault-free run: count operations, record the intended final state
            fs.count.store(0, Ordering::SeqCst); fs.fail_at.store(0, Ordering::SeqCst); let _ = fs.take_trace(false);
            let r0 = crate::arr::exec_op(&mut mk_ctx(fsd.clone(), array.clone()), &inner_verb, &mm);
            let n = fs.count.load(Ordering::SeqCst);
            let t0 = fs.take_trace(true);
            let snap1 = snapshot(&base);
            let val1 = if pe { read_all() } else { String::new() };
            let (mut ok_with_fault, mut panics, mut torn, mut retry_diff) = (0, 0, 0, 0);
            let mut rdk: Vec<String> = vec![];
            for k in 1..=n {
                restore(&base, &snap0);
                let _ = fs.take_trace(false);
                fs.count.store(0, Ordering::SeqCst); fs.fail_at.store(k as i64, Ordering::SeqCst);
                let r = crate::arr::exec_op(&mut mk_ctx(fsd.clone(), array.clone()), &inner_verb, &mm);
                if r == "panic" { panics += 1; } else if r != "err" { ok_with_fault += 1; }
                let failed_op = fs.failed.lock().unwrap().clone();
                // chunk-granular: every key holds its previous or its intended value
                let now = snapshot(&base);
                let keys: std::collections::BTreeSet<&String> = snap0.keys().chain(snap1.keys()).chain(now.keys()).collect();
                for key in keys { let cur = now.get(key); if cur != snap0.get(key) && cur != snap1.get(key) { torn += 1; } }
                // retry without faults from the state the fault left
                fs.fail_at.store(0, Ordering::SeqCst);
                let _ = crate::arr::exec_op(&mut mk_ctx(fsd.clone(), array.clone()), &inner_verb, &mm);
                if pe { fs.fail_at.store(0, Ordering::SeqCst); if read_all() != val1 { retry_diff += 1;
                    rdk.push(failed_op.clone()); } }
                else if snapshot(&base) != snap1 { retry_diff += 1; }
            }
            restore(&base, &snap1);
            if pe { return format!("{} faults n={} ok_with_fault={} panics={} torn={} retry_diff={} rdk={} t={}", r0, n, ok_with_fault, panics, torn, retry_diff, if rdk.is_empty() { "-".to_string() } else { rdk.join(",") }, t0); }
            format!("{} faults n={} ok_with_fault={} panics={} torn={} retry_diff={} t={}", r0, n, ok_with_fault, panics, torn, retry_diff, t0)
        }
        "fault_sweep_read" => {
            fs.count.store(0, Ordering::SeqCst); fs.fail_at.store(0, Ordering::SeqCst); let _ = fs.take_trace(false);
            let r0 = crate::arr::exec_op(&mut mk_ctx(fsd.clone(), array.clone()), &inner_verb, &mm);
            let n = fs.count.load(Ordering::SeqCst);
            let t0 = fs.take_trace(true);
            let (mut ok_with_fault, mut panics, mut cached_wrong) = (0, 0, 0);
            for k in 1..=n {
                fs.count.store(0, Ordering::SeqCst); fs.fail_at.store(k as i64, Ordering::SeqCst);
                let r = crate::arr::exec_op(&mut mk_ctx(fsd.clone(), array.clone()), &inner_verb, &mm);
                if r == "panic" { panics += 1; } else if r != "err" { ok_with_fault += 1; }
                // failed reads are not cached: a cached read that fails, then succeeds, returns the right data
                if let Some(rs) = mm.get("r") {
                    let region = parse_subset(rs);
                    let dc = ChunkCacheDecodedLruChunkLimit::new(100);
                    let ec = ChunkCacheEncodedLruChunkLimit::new(100);
                    for which in 0..2 {
                        fs.count.store(0, Ordering::SeqCst); fs.fail_at.store(k as i64, Ordering::SeqCst);
                        let a = array.clone(); let o = opts.clone();
                        // (a cached read under a fault: an error or - when the fault position is beyond what this read issues - a value; never a panic)
                        let faulted = std::panic::catch_unwind(std::panic::AssertUnwindSafe(|| if which == 0 { a.retrieve_array_subset_opt_cached(&dc, &region, &o).map(|_| ()) } else { a.retrieve_array_subset_opt_cached(&ec, &region, &o).map(|_| ()) }));
                        if faulted.is_err() { panics += 1; }
                        fs.fail_at.store(0, Ordering::SeqCst);
                        let again = std::panic::catch_unwind(std::panic::AssertUnwindSafe(|| if which == 0 { a.retrieve_array_subset_opt_cached(&dc, &region, &o) } else { a.retrieve_array_subset_opt_cached(&ec, &region, &o) }.map(|b| format!("val {}", show_elems(&from_array_bytes(ctx.es, b)))).unwrap_or("err".into()))).unwrap_or("panic".into());
                        if inner_verb == "retrieve_array_subset" && again != r0 { cached_wrong += 1; }
                    }
                }
            }
            fs.fail_at.store(0, Ordering::SeqCst);
            format!("{} faults n={} ok_with_fault={} panics={} cached_wrong={} t={}", r0, n, ok_with_fault, panics, cached_wrong, t0)
        }
        _ => {
            // metadata / group methods under faults (Zarr V2 nodes, whose attributes live under a second key, included)
            let _ = base.set(&StoreKey::new("grp2_c20/.zgroup").unwrap(), br#"{"zarr_format":2}"#.to_vec().into());
            let _ = base.set(&StoreKey::new("grp2_c20/.zattrs").unwrap(), br#"{"spam":"ham","eggs":42}"#.to_vec().into());
            let _ = base.set(&StoreKey::new("arr2_c20/.zarray").unwrap(), br#"{"zarr_format":2,"shape":[4,6],"chunks":[2,3],"dtype":"|u1","compressor":null,"fill_value":0,"order":"C","filters":null}"#.to_vec().into());
            let _ = base.set(&StoreKey::new("arr2_c20/.zattrs").unwrap(), br#"{"a":1}"#.to_vec().into());
            // a small hierarchy: every listing method reads the metadata of each child it discovers
            const HG: &str = r#"{"zarr_format":3,"node_type":"group"}"#;
            const HA: &str = r#"{"zarr_format":3,"node_type":"array","shape":[2],"data_type":"uint8","chunk_grid":{"name":"regular","configuration":{"chunk_shape":[1]}},"chunk_key_encoding":{"name":"default","configuration":{"separator":"/"}},"fill_value":0,"codecs":[{"name":"bytes"}]}"#;
            let hier: [(&str, &str); 6] = [("hg_c20/zarr.json", HG), ("hg_c20/a/zarr.json", HA), ("hg_c20/b/zarr.json", HA), ("hg_c20/g/zarr.json", HG), ("hg_c20/g/c/zarr.json", HA), ("hg_c20/v2/.zgroup", r#"{"zarr_format":2}"#)];
            for (k, v) in hier { let _ = base.set(&StoreKey::new(k).unwrap(), v.as_bytes().to_vec().into()); }
            let snap0 = snapshot(&base);
            // `strict` (the fault-free run): a listing must be COMPLETE to count as a success; under a fault (`!strict`) ANY `Ok` of a
            // listing counts as "ok with fault" — a listing that returns `Ok` with a child missing (the child's metadata read
            // failed and was skipped) is not an error and must not be taken for one
            let run = |which: &str, strict: bool| -> bool {
                let want = |len: usize, n: usize| !strict || len == n;
                match which {
                    "children" => Group::open(fsd.clone(), "/hg_c20").ok().and_then(|g| g.children(true).ok()).map(|c| want(c.len(), 4)).unwrap_or(false),
                    "child_paths" => Group::open(fsd.clone(), "/hg_c20").ok().map(|g| {
                        let rs = [g.child_paths(false).map(|v| want(v.len(), 4)).unwrap_or(false), g.child_group_paths(false).map(|v| want(v.len(), 2)).unwrap_or(false),
                            g.child_array_paths(false).map(|v| want(v.len(), 2)).unwrap_or(false), g.child_groups(false).map(|v| want(v.len(), 2)).unwrap_or(false), g.child_arrays(false).map(|v| want(v.len(), 2)).unwrap_or(false)];
                        // fault-free: all five complete; under a fault: at most one of the five meets it, the others succeed — all five `Ok` means the fault was swallowed
                        rs.iter().all(|b| *b) }).unwrap_or(false),
                    "node_tree" => zarrs::node::Node::open(&fsd, "/hg_c20").map(|n| want(n.children().len(), 4)).unwrap_or(false),
                    "store_metadata" => array.store_metadata().is_ok(),
                    "erase_metadata" => array.erase_metadata().is_ok(),
                    "open" => Array::open(fsd.clone(), &ctx.path).is_ok(),
                    // (success is success, whatever the handle holds: a swallowed read error shows as `ok` under a fault)
                    "open_v2" => Group::open(fsd.clone(), "/grp2_c20").is_ok() && Array::open(fsd.clone(), "/arr2_c20").is_ok()
                        && zarrs::node::Node::open(&fsd, "/grp2_c20").is_ok(),
                    "group" => { let g = GroupBuilder::new().build(fsd.clone(), "/grp_c20"); match g { Ok(g) => g.store_metadata().is_ok() && Group::open(fsd.clone(), "/grp_c20").is_ok() && g.erase_metadata().is_ok(), Err(_) => false } }
                    _ => false,
                }
            };
            let mut out = vec![];
            for which in ["store_metadata", "open", "open_v2", "group", "children", "child_paths", "node_tree", "erase_metadata"] {
                restore(&base, &snap0);
                fs.count.store(0, Ordering::SeqCst); fs.fail_at.store(0, Ordering::SeqCst); let _ = fs.take_trace(false);
                let ok0 = std::panic::catch_unwind(std::panic::AssertUnwindSafe(|| run(which, true))).unwrap_or(false);
                let n = fs.count.load(Ordering::SeqCst);
                // metadata / node methods are sequential: the trace is kept in the order of arrival
                let t0 = fs.take_trace(false);
                let (mut okf, mut panics) = (0, 0);
                for k in 1..=n {
                    restore(&base, &snap0);
                    fs.count.store(0, Ordering::SeqCst); fs.fail_at.store(k as i64, Ordering::SeqCst);
                    match std::panic::catch_unwind(std::panic::AssertUnwindSafe(|| run(which, false))) { Ok(true) => okf += 1, Ok(false) => {}, Err(_) => panics += 1 }
                }
                out.push(format!("{}:{}:n={}:ok_with_fault={}:panics={}:t={}", which, ok0, n, okf, panics, t0));
            }
            fs.fail_at.store(0, Ordering::SeqCst);
            restore(&base, &snap0);
            for k in ["grp2_c20/.zgroup", "grp2_c20/.zattrs", "arr2_c20/.zarray", "arr2_c20/.zattrs"] { let _ = base.erase(&StoreKey::new(k).unwrap()); }
            let _ = base.erase_prefix(&StorePrefix::new("hg_c20/").unwrap());
            format!("meta {}", out.join(" "))
        }
    }
}

pub fn generate(tier: &str, seed: u64) -> Vec<String> {
    let mut rng = Rng::new(seed ^ 0xC20);
    let thorough = tier == "thorough";
    let ncfg = if thorough { 1500 } else { 160 };
    let mut out = vec![];
    for k in 0..ncfg {
        let cfg = gen_cfg(&mut rng, if k % 3 == 0 { Some(true) } else { None });
        out.push(cfg.cfg_line("c20", "memory", rng.chance(1, 4), false, ""));
        for _ in 0..rng.range(1, 4) { out.push(format!("c20 {}", gen_write_op(&mut rng, &cfg))); }
        for _ in 0..rng.range(2, 5) {
            let w = gen_write_op(&mut rng, &cfg);
            out.push(format!("c20 op fault_sweep {}", &w[3..]));
            if rng.chance(1, 2) { let r = gen_read_op(&mut rng, &cfg); out.push(format!("c20 op fault_sweep_read {}", &r[3..])); }
        }
        out.push(format!("c20 op fault_sweep_read retrieve_array_subset r={}+{}", nl(&vec![0; cfg.shape.len()]), nl(&cfg.shape)));
        out.push("c20 op fault_meta".into());
        gen_full_reads(&mut rng, &cfg, &mut out, "c20");
    }
    // The sharding partial encoder under faults (`experimental_partial_encoding`), for chains whose ONLY top-level codec is
    // `sharding_indexed`: the encoder reads the index and the straddled inner chunks, then publishes the new index and the
    // new inner chunks in ONE store call (or erases the shard), so a fault at any position leaves the shard untouched and a
    // retry converges. (Chains with other top-level stages go through the default partial encoders, which erase before they
    // rewrite and do not converge on the unchanged tree either - DESIGN 10.4 - and stay outside this family.)
    let npe = if thorough { 400 } else { 40 };
    let mut k = 0;
    while k < npe {
        let cfg = gen_cfg(&mut rng, Some(true));
        if !shard_only(&cfg.chain_desc) { continue; }
        k += 1;
        out.push(cfg.cfg_line("c20", "memory", rng.chance(1, 4), true, ""));
        for _ in 0..rng.range(1, 3) { out.push(format!("c20 {}", gen_write_op(&mut rng, &cfg))); }
        for _ in 0..rng.range(3, 6) {
            let w = gen_write_op(&mut rng, &cfg);
            out.push(format!("c20 op fault_sweep_pe {}", &w[3..]));
        }
        out.push(format!("c20 op fault_sweep_read retrieve_array_subset r={}+{}", nl(&vec![0; cfg.shape.len()]), nl(&cfg.shape)));
        gen_full_reads(&mut rng, &cfg, &mut out, "c20");
    }
    out
}

/// the chain description is exactly one `shard[...]` stage (nothing before it, nothing after its closing bracket)
fn shard_only(desc: &str) -> bool {
    if !desc.starts_with("shard[") { return false; }
    let mut depth = 0i32;
    for (i, c) in desc.char_indices() {
        if c == '[' { depth += 1; }
        if c == ']' { depth -= 1; if depth == 0 { return i + 1 == desc.len(); } }
    }
    false
}
