//! C07: the async API against the sync API. Every operation of a case is executed twice — through the synchronous
//! methods on a `MemoryStore` and through the `async_*` methods on an `AsyncObjectStore<InMemory>` opened from the
//! same metadata — and the two outcomes are compared; the line's outcome is the common outcome, or
//! `MISMATCH sync=… async=…`.  `keys` compares the key sets, `contents` every element read back through a fresh
//! synchronous handle over each store.  Hierarchy queries (`c07 hcfg` / `c07 hop`) run the sync form (through the
//! async-to-sync adapter) and the async form on one object store.
use crate::arr::*;
use crate::c08::{rt, DynStore};
use crate::util::*;
use std::collections::BTreeMap;
use std::sync::Arc;
use zarrs::array::{Array, ArrayMetadata};
use zarrs::array_subset::ArraySubset;
use zarrs::group::{Group, GroupMetadata, GroupMetadataV3};
use zarrs::node::{Node, NodeMetadata, NodePath};
use zarrs::storage::storage_adapter::async_to_sync::AsyncToSyncStorageAdapter;
use zarrs::storage::{AsyncReadableWritableListableStorage, StoreKey};

type AStore = AsyncReadableWritableListableStorage;
type AArr = Array<dyn zarrs::storage::AsyncReadableWritableListableStorageTraits>;

pub struct C07Ctx { pub sync: ArrCtx, pub astore: AStore, pub aarr: Arc<AArr>, pub rt: tokio::runtime::Runtime }

/// an async store with exactly the semantics of `MemoryStore`, so that only the API layers differ
pub struct AsyncMem(pub zarrs::storage::store::MemoryStore);
use zarrs::storage::{byte_range::ByteRange, AsyncBytes, StorageError, StoreKeyOffsetValue, StoreKeys, StoreKeysPrefixes, StorePrefix};
use zarrs::storage::{ListableStorageTraits, ReadableStorageTraits, WritableStorageTraits};
#[async_trait::async_trait]
impl zarrs::storage::AsyncReadableStorageTraits for AsyncMem {
    async fn get_partial_values_key(&self, key: &StoreKey, byte_ranges: &[ByteRange]) -> Result<Option<Vec<AsyncBytes>>, StorageError> {
        Ok(self.0.get_partial_values_key(key, byte_ranges)?.map(|v| v.into_iter().map(|b| AsyncBytes::from(b.to_vec())).collect()))
    }
    async fn size_key(&self, key: &StoreKey) -> Result<Option<u64>, StorageError> { self.0.size_key(key) }
}
#[async_trait::async_trait]
impl zarrs::storage::AsyncWritableStorageTraits for AsyncMem {
    async fn set(&self, key: &StoreKey, value: AsyncBytes) -> Result<(), StorageError> { self.0.set(key, value.to_vec().into()) }
    async fn set_partial_values(&self, kovs: &[StoreKeyOffsetValue]) -> Result<(), StorageError> { self.0.set_partial_values(kovs) }
    async fn erase(&self, key: &StoreKey) -> Result<(), StorageError> { self.0.erase(key) }
    async fn erase_prefix(&self, prefix: &StorePrefix) -> Result<(), StorageError> { self.0.erase_prefix(prefix) }
}
#[async_trait::async_trait]
impl zarrs::storage::AsyncListableStorageTraits for AsyncMem {
    async fn list(&self) -> Result<StoreKeys, StorageError> { self.0.list() }
    async fn list_prefix(&self, prefix: &StorePrefix) -> Result<StoreKeys, StorageError> { self.0.list_prefix(prefix) }
    async fn list_dir(&self, prefix: &StorePrefix) -> Result<StoreKeysPrefixes, StorageError> { self.0.list_dir(prefix) }
    async fn size_prefix(&self, prefix: &StorePrefix) -> Result<u64, StorageError> { self.0.size_prefix(prefix) }
}

fn new_astore() -> AStore { Arc::new(AsyncMem(zarrs::storage::store::MemoryStore::new())) }
fn new_rt() -> tokio::runtime::Runtime { tokio::runtime::Builder::new_current_thread().enable_all().build().unwrap() }

pub fn open_cfg(m: &BTreeMap<String, String>) -> Result<C07Ctx, String> {
    let sync = open_ctx(m)?;
    let astore = new_astore();
    let rt = new_rt();
    let path = m["path"].clone();
    let meta = unhex(&m["meta"]);
    let aarr = rt.block_on(async {
        astore.set(&meta_key(&path), meta.into()).await.map_err(|e| e.to_string())?;
        Array::async_open(astore.clone(), &path).await.map_err(|e| format!("async open: {}", e))
    })?;
    Ok(C07Ctx { sync, astore, aarr: Arc::new(aarr), rt })
}

fn ru<E: std::fmt::Display>(r: Result<(), E>) -> String { match r { Ok(()) => "ok".into(), Err(_) => "err".into() } }
fn rv<E: std::fmt::Display>(es: Option<usize>, r: Result<zarrs::array::ArrayBytes<'_>, E>) -> String {
    match r { Ok(b) => format!("val {}", show_elems(&from_array_bytes(es, b))), Err(_) => "err".into() }
}

fn exec_async(ctx: &mut C07Ctx, verb: &str, m: &BTreeMap<String, String>) -> String {
    let es = ctx.sync.es;
    let a = ctx.aarr.clone();
    let o = ctx.sync.opts.clone();
    let astore = ctx.astore.clone();
    let path = ctx.sync.path.clone();
    let rt = &ctx.rt;
    let mut new_arr: Option<AArr> = None;
    let out = guarded(|| rt.block_on(async {
        match verb {
            "store_chunk" => ru(a.async_store_chunk_opt(&pnl(&m["c"]), to_array_bytes(es, &parse_elems(&m["data"])), &o).await),
            "store_chunks" => ru(a.async_store_chunks_opt(&parse_subset(&m["box"]), to_array_bytes(es, &parse_elems(&m["data"])), &o).await),
            "store_chunk_subset" => ru(a.async_store_chunk_subset_opt(&pnl(&m["c"]), &parse_subset(&m["r"]), to_array_bytes(es, &parse_elems(&m["data"])), &o).await),
            "store_array_subset" => ru(a.async_store_array_subset_opt(&parse_subset(&m["r"]), to_array_bytes(es, &parse_elems(&m["data"])), &o).await),
            "erase_chunk" => ru(a.async_erase_chunk(&pnl(&m["c"])).await),
            "erase_chunks" => ru(a.async_erase_chunks(&parse_subset(&m["box"])).await),
            "retrieve_chunk" => rv(es, a.async_retrieve_chunk_opt(&pnl(&m["c"]), &o).await),
            "retrieve_chunk_if_exists" => match a.async_retrieve_chunk_if_exists_opt(&pnl(&m["c"]), &o).await {
                Ok(Some(b)) => format!("val {}", show_elems(&from_array_bytes(es, b))), Ok(None) => "none".into(), Err(_) => "err".into() },
            "retrieve_chunks" => rv(es, a.async_retrieve_chunks_opt(&parse_subset(&m["box"]), &o).await),
            "retrieve_chunk_subset" => rv(es, a.async_retrieve_chunk_subset_opt(&pnl(&m["c"]), &parse_subset(&m["r"]), &o).await),
            "retrieve_array_subset" => rv(es, a.async_retrieve_array_subset_opt(&parse_subset(&m["r"]), &o).await),
            "pdx" => {
                let c = pnl(&m["c"]);
                let rs: Vec<_> = m["rs"].split('|').map(parse_subset).collect();
                let pd = match a.async_partial_decoder_opt(&c, &o).await { Ok(p) => p, Err(_) => return "err".to_string() };
                match pd.partial_decode(&rs, &o).await {
                    Ok(parts) => format!("val {}", parts.into_iter().map(|b| show_elems(&from_array_bytes(es, b))).collect::<Vec<_>>().join("|")),
                    Err(_) => "err".into(),
                }
            }
            "keys" => {
                let mut ks: Vec<String> = astore.list().await.unwrap_or_default().iter().map(|k| k.as_str().to_string()).collect();
                let mk = meta_key(&path).as_str().to_string();
                ks.retain(|k| k != &mk);
                ks.sort();
                if ks.is_empty() { "keys ~".into() } else { format!("keys {}", ks.join(",")) }
            }
            "reopen" => {
                if a.async_store_metadata().await.is_err() { return "err".to_string(); }
                match Array::async_open(astore.clone(), &path).await { Ok(arr) => { new_arr = Some(arr); "ok".into() } Err(_) => "err".into() }
            }
            _ => "bad-op".into(),
        }
    }));
    if let Some(arr) = new_arr { ctx.aarr = Arc::new(arr); }
    out
}

fn exec_sync(ctx: &mut C07Ctx, verb: &str, m: &BTreeMap<String, String>) -> String {
    if verb == "pdx" {
        let a = ctx.sync.array.clone();
        let es = ctx.sync.es;
        let o = ctx.sync.opts.clone();
        return guarded(|| {
            let c = pnl(&m["c"]);
            let rs: Vec<_> = m["rs"].split('|').map(parse_subset).collect();
            let pd = match a.partial_decoder_opt(&c, &o) { Ok(p) => p, Err(_) => return "err".into() };
            match pd.partial_decode(&rs, &o) {
                Ok(parts) => format!("val {}", parts.into_iter().map(|b| show_elems(&from_array_bytes(es, b))).collect::<Vec<_>>().join("|")),
                Err(_) => "err".into(),
            }
        });
    }
    exec_op(&mut ctx.sync, verb, m)
}

pub fn exec(ctx: &mut C07Ctx, verb: &str, m: &BTreeMap<String, String>) -> String {
    if verb == "contents" {
        // readable contents of both stores through fresh synchronous handles
        let s1: DynStore = ctx.sync.store.store.clone();
        let s2: DynStore = Arc::new(AsyncToSyncStorageAdapter::new(ctx.astore.clone(), rt()));
        let path = ctx.sync.path.clone();
        let es = ctx.sync.es;
        let read = |s: DynStore| -> String { guarded(|| match Array::open(s, &path) {
            Ok(a) => match a.retrieve_array_subset(&ArraySubset::new_with_shape(a.shape().to_vec())) { Ok(b) => format!("val {}", show_elems(&from_array_bytes(es, b))), Err(_) => "err".into() },
            Err(_) => "err-open".into() }) };
        let (a, b) = (read(s1), read(s2));
        return if a == b { a } else { format!("MISMATCH sync={} async={}", a, b) };
    }
    let s = exec_sync(ctx, verb, m);
    let a = exec_async(ctx, verb, m);
    if s == a { s } else { format!("MISMATCH sync={} async={}", s, a) }
}

// ---------------------------------------------------------------- hierarchy: sync and async forms over one store

pub struct HCtx { pub astore: AStore, pub sync: DynStore, pub rt: tokio::runtime::Runtime }
pub fn open_hcfg() -> HCtx { let astore = new_astore(); HCtx { sync: Arc::new(AsyncToSyncStorageAdapter::new(astore.clone(), rt())), astore, rt: new_rt() } }

fn kind_of(md: &NodeMetadata) -> &'static str {
    match md {
        NodeMetadata::Array(ArrayMetadata::V3(_)) => "array3", NodeMetadata::Array(ArrayMetadata::V2(_)) => "array2",
        NodeMetadata::Group(GroupMetadata::V3(_)) => "group3", NodeMetadata::Group(GroupMetadata::V2(_)) => "group2",
    }
}
fn flatten(nodes: &[Node], out: &mut Vec<String>) { for n in nodes { out.push(format!("{}:{}", n.path().as_str(), kind_of(n.metadata()))); flatten(n.children(), out); } }
fn show(mut v: Vec<String>) -> String { v.sort(); if v.is_empty() { "~".into() } else { v.join(",") } }
fn key(s: &str) -> StoreKey { StoreKey::new(s).unwrap() }
const V3_ARRAY: &str = r#"{"zarr_format":3,"node_type":"array","shape":[2],"data_type":"uint8","chunk_grid":{"name":"regular","configuration":{"chunk_shape":[1]}},"chunk_key_encoding":{"name":"default","configuration":{"separator":"/"}},"fill_value":0,"codecs":[{"name":"bytes"}]}"#;
const V2_ARRAY: &str = r#"{"zarr_format":2,"shape":[2],"chunks":[1],"dtype":"|u1","compressor":null,"fill_value":0,"order":"C","filters":null}"#;

pub fn exec_hop(ctx: &HCtx, verb: &str, m: &BTreeMap<String, String>) -> String {
    let p = m.get("p").cloned().unwrap_or_default();
    let rel = p.trim_start_matches('/').to_string();
    let mk = |name: &str| if rel.is_empty() { name.to_string() } else { format!("{}/{}", rel, name) };
    let store = ctx.sync.clone();
    let astore = ctx.astore.clone();
    let paths = |v: Vec<NodePath>| show(v.iter().map(|x| x.as_str().to_string()).collect());
    // the synchronous form
    let s = guarded(|| match verb {
        "mkgroup" => if m["v"] == "3" {
                match Group::new_with_metadata(store.clone(), &p, GroupMetadata::V3(GroupMetadataV3::new())) { Ok(g) => ru(g.store_metadata()), Err(_) => "err-path".into() }
            } else { ru(store.set(&key(&mk(".zgroup")), br#"{"zarr_format":2}"#.to_vec().into())) },
        "mkarray" => { let (name, doc, ck) = if m["v"] == "3" { ("zarr.json", V3_ARRAY, mk("c/0")) } else { (".zarray", V2_ARRAY, mk("0")) };
            match store.set(&key(&mk(name)), doc.as_bytes().to_vec().into()) { Ok(()) => { let _ = store.set(&key(&ck), vec![7u8].into()); "ok".into() } Err(_) => "err".into() } }
        "stray" => ru(store.set(&key(&m["k"]), vec![1u8].into())),
        "rmnode" => ru(store.erase_prefix(&zarrs::storage::StorePrefix::new(&if rel.is_empty() { String::new() } else { format!("{}/", rel) }).unwrap())),
        "children" => { let g = match Group::open(store.clone(), &p) { Ok(g) => g, Err(_) => return "nogroup".into() };
            let rec = m["rec"] == "1";
            match g.children(rec) { Ok(ns) => { let mut out = vec![]; if rec { flatten(&ns, &mut out); } else { for n in &ns { out.push(format!("{}:{}", n.path().as_str(), kind_of(n.metadata()))); } } format!("nodes {}", show(out)) } Err(_) => "err".into() } }
        "paths" => { let g = match Group::open(store.clone(), &p) { Ok(g) => g, Err(_) => return "nogroup".into() };
            let f = |r: Result<Vec<NodePath>, zarrs::node::NodeCreateError>| match r { Ok(v) => paths(v), Err(_) => "err".into() };
            format!("all={} groups={} arrays={}", f(g.child_paths(false)), f(g.child_group_paths(false)), f(g.child_array_paths(false))) }
        "objs" => { let g = match Group::open(store.clone(), &p) { Ok(g) => g, Err(_) => return "nogroup".into() };
            let gs = match g.child_groups(false) { Ok(v) => show(v.iter().map(|x| x.path().as_str().to_string()).collect()), Err(_) => "err".into() };
            let as_ = match g.child_arrays(false) { Ok(v) => show(v.iter().map(|x| x.path().as_str().to_string()).collect()), Err(_) => "err".into() };
            format!("groups={} arrays={}", gs, as_) }
        "tree" => match Node::open(&store, &p) { Ok(n) => { let mut out = vec![format!("{}:{}", n.path().as_str(), kind_of(n.metadata()))]; flatten(n.children(), &mut out); format!("nodes {}", show(out)) } Err(_) => "err".into() },
        "exists" => { let np = match NodePath::new(&p) { Ok(x) => x, Err(_) => return "err-path".into() };
            let a = zarrs::node::node_exists(&store, &np).map(|b| b.to_string()).unwrap_or("err".into());
            let b = zarrs::node::node_exists_listable(&store, &np).map(|b| b.to_string()).unwrap_or("err".into());
            format!("val {} {}", a, b) }
        "keys" => { let ks: Vec<String> = store.list().unwrap_or_default().iter().map(|k| k.as_str().to_string()).collect(); format!("keys {}", show(ks)) }
        _ => "bad-op".into(),
    });
    // the asynchronous form of the queries (mutations were applied once, through the synchronous form)
    let a = match verb {
        "children" | "paths" | "objs" | "tree" | "exists" => guarded(|| ctx.rt.block_on(async {
            match verb {
                "children" => { let g = match Group::async_open(astore.clone(), &p).await { Ok(g) => g, Err(_) => return "nogroup".to_string() };
                    let rec = m["rec"] == "1";
                    match g.async_children(rec).await { Ok(ns) => { let mut out = vec![]; if rec { flatten(&ns, &mut out); } else { for n in &ns { out.push(format!("{}:{}", n.path().as_str(), kind_of(n.metadata()))); } } format!("nodes {}", show(out)) } Err(_) => "err".into() } }
                "paths" => { let g = match Group::async_open(astore.clone(), &p).await { Ok(g) => g, Err(_) => return "nogroup".to_string() };
                    let f = |r: Result<Vec<NodePath>, zarrs::node::NodeCreateError>| match r { Ok(v) => paths(v), Err(_) => "err".into() };
                    format!("all={} groups={} arrays={}", f(g.async_child_paths(false).await), f(g.async_child_group_paths(false).await), f(g.async_child_array_paths(false).await)) }
                "objs" => { let g = match Group::async_open(astore.clone(), &p).await { Ok(g) => g, Err(_) => return "nogroup".to_string() };
                    let gs = match g.async_child_groups(false).await { Ok(v) => show(v.iter().map(|x| x.path().as_str().to_string()).collect()), Err(_) => "err".into() };
                    let as_ = match g.async_child_arrays(false).await { Ok(v) => show(v.iter().map(|x| x.path().as_str().to_string()).collect()), Err(_) => "err".into() };
                    format!("groups={} arrays={}", gs, as_) }
                "tree" => match Node::async_open(astore.clone(), &p).await { Ok(n) => { let mut out = vec![format!("{}:{}", n.path().as_str(), kind_of(n.metadata()))]; flatten(n.children(), &mut out); format!("nodes {}", show(out)) } Err(_) => "err".into() },
                _ => { let np = match NodePath::new(&p) { Ok(x) => x, Err(_) => return "err-path".to_string() };
                    let a = zarrs::node::async_node_exists(&astore, &np).await.map(|b| b.to_string()).unwrap_or("err".into());
                    let b = zarrs::node::async_node_exists_listable(&astore, &np).await.map(|b| b.to_string()).unwrap_or("err".into());
                    format!("val {} {}", a, b) }
            }
        })),
        _ => s.clone(),
    };
    if s == a { s } else { format!("MISMATCH sync={} async={}", s, a) }
}

pub fn generate(tier: &str, seed: u64) -> Vec<String> {
    let mut rng = Rng::new(seed ^ 0xC07);
    let thorough = tier == "thorough";
    let ncfg = if thorough { 4000 } else { 350 };
    let mut out = vec![];
    for k in 0..ncfg {
        let cfg = gen_cfg(&mut rng, if k % 3 == 0 { Some(true) } else { None });
        // partial encoding is a synchronous-only write strategy: the stored bytes may differ, the contents may not
        let penc = k % 5 == 4;
        out.push(cfg.cfg_line("c07", "memory", rng.chance(1, 4), penc, ""));
        let nops = if thorough { rng.range(1, 30) } else { rng.range(1, 10) };
        for _ in 0..nops {
            out.push(format!("c07 {}", gen_write_op(&mut rng, &cfg)));
            if rng.chance(1, 2) { out.push(format!("c07 {}", gen_read_op(&mut rng, &cfg))); }
            if rng.chance(1, 4) { out.push("c07 op keys".to_string()); }
            if rng.chance(1, 4) && !cfg.shape.is_empty() {
                // a partial decoder request: 1-3 sub-boxes of one chunk
                let gs = cfg.grid_shape();
                let c: Vec<u64> = gs.iter().map(|&g| rng.below(g.max(1))).collect();
                let cshape = cfg.chunk_origin_shape(&c).1;
                let rs: Vec<String> = (0..rng.range(1, 3)).map(|_| { let mut s = vec![]; let mut n = vec![]; for &e in &cshape { let st = rng.below(e); s.push(st); n.push(rng.range(1, e - st)); } format!("{}+{}", nl(&s), nl(&n)) }).collect();
                out.push(format!("c07 op pdx c={} rs={}", nl(&c), rs.join("|")));
            }
        }
        gen_full_reads(&mut rng, &cfg, &mut out, "c07");
        out.push("c07 op keys".to_string());
        out.push("c07 op contents".to_string());
        out.push("c07 op reopen".to_string());
        gen_full_reads(&mut rng, &cfg, &mut out, "c07");
    }
    // hierarchies
    let nh = if thorough { 1500 } else { 150 };
    for _ in 0..nh {
        out.push("c07 hcfg".to_string());
        let names = ["a", "b", "c", "g1", "zarr", "x.y", "t__2m"];
        let mut paths: Vec<String> = vec!["/".to_string()];
        for _ in 0..rng.range(4, if thorough { 30 } else { 16 }) {
            let sel = rng.below(18);
            let parent = rng.pick(&paths).clone();
            let child = if parent == "/" { format!("/{}", rng.pick(&names)) } else { format!("{}/{}", parent, rng.pick(&names)) };
            match sel {
                0..=5 => { let p = if rng.chance(1, 6) { "/".to_string() } else { child.clone() }; out.push(format!("c07 hop mkgroup p={} v={}", p, if rng.chance(1, 4) { 2 } else { 3 })); if !paths.contains(&p) && p.matches('/').count() < 4 { paths.push(p); } }
                6..=8 => out.push(format!("c07 hop mkarray p={} v={}", child, if rng.chance(1, 4) { 2 } else { 3 })),
                9 => { let p = rng.pick(&paths).clone(); if p != "/" { out.push(format!("c07 hop rmnode p={}", p)); } }
                10 => out.push(format!("c07 hop stray k={}/{}", child.trim_start_matches('/'), rng.pick(&["data.bin", "x/y"]))),
                11 => out.push(format!("c07 hop children p={} rec={}", rng.pick(&paths), rng.below(2))),
                12 => out.push(format!("c07 hop paths p={}", rng.pick(&paths))),
                13 => out.push(format!("c07 hop objs p={}", rng.pick(&paths))),
                14 => out.push(format!("c07 hop exists p={}", if rng.chance(1, 2) { child } else { parent })),
                _ => out.push(format!("c07 hop tree p={}", rng.pick(&paths))),
            }
        }
        out.push("c07 hop keys".into());
        for p in &paths { out.push(format!("c07 hop children p={} rec=1", p)); out.push(format!("c07 hop paths p={}", p)); out.push(format!("c07 hop objs p={}", p)); }
        out.push("c07 hop tree p=/".into());
    }
    out
}
