//! C07: the async API against the sync API. Every operation of a case is executed through the synchronous methods on a
//! `MemoryStore` and through the `async_*` methods on several ASYNC FLAVOURS opened from the same metadata, each over its
//! own `MemoryStore`: `imm` (an adapter whose futures complete immediately) and `lat<seed>` (`c08::LatencyStore`: every
//! store operation suspends for a deterministic, key- and operation-dependent number of scheduler yields, so that
//! concurrently issued futures take effect and complete out of issue order on the current-thread runtime). All outcomes
//! are compared; the line's outcome is the common outcome, or `MISMATCH sync=… async[<flavour>]=…`.  `keys` compares the
//! key sets, `contents` every element read back through a fresh synchronous handle over each store.  Verbs that compare
//! raw bytes (`enc_chunk`, `enc_chunks`, `store_metadata`) run the synchronous form over the flavour's own `MemoryStore`
//! (the same store contents) and report only what the model predicts (presence).  Hierarchy queries and metadata
//! mutations (`c07 hcfg` / `c07 hop`) run the sync form (through the async-to-sync adapter) and the async form on one store.
use crate::arr::*;
use crate::c08::{rt, DynStore, LatencyStore};
use crate::util::*;
use std::collections::BTreeMap;
use std::sync::Arc;
use zarrs::array::codec::{
    ArrayPartialEncoderTraits, ArrayToBytesCodecTraits, AsyncArrayPartialEncoderTraits, AsyncBytesPartialEncoderTraits,
    AsyncStoragePartialDecoder, CodecError, CodecOptions,
};
use zarrs::array::{Array, ArrayBytes, ArrayMetadata, ArrayMetadataOptions};
use zarrs::array_subset::ArraySubset;
use zarrs::config::MetadataEraseVersion;
use zarrs::group::{Group, GroupMetadata, GroupMetadataV3};
use zarrs::node::{Node, NodeMetadata, NodePath};
use zarrs::storage::storage_adapter::async_to_sync::AsyncToSyncStorageAdapter;
use zarrs::storage::store::MemoryStore;
use zarrs::storage::{AsyncReadableStorage, AsyncReadableWritableListableStorage, StoreKey};

type AStore = AsyncReadableWritableListableStorage;
type AArr = Array<dyn zarrs::storage::AsyncReadableWritableListableStorageTraits>;

/// one asynchronous route to the array: the async store, its `MemoryStore`, the async handle and a synchronous handle
/// over the same `MemoryStore`
pub struct Flavour { pub name: String, pub astore: AStore, pub aread: AsyncReadableStorage, pub inner: Arc<MemoryStore>, pub aarr: Arc<AArr>, pub sarr: Arc<Arr> }
pub struct C07Ctx { pub sync: ArrCtx, pub fl: Vec<Flavour>, pub rt: tokio::runtime::Runtime, pub dtype: String, pub last_meta: Option<Vec<u8>> }

/// an async store with exactly the semantics of `MemoryStore` whose futures are always ready, so that only the API layers differ
pub struct AsyncMem(pub Arc<MemoryStore>);
use zarrs::storage::{byte_range::ByteRange, AsyncBytes, StorageError, StoreKeyOffsetValue, StoreKeys, StoreKeysPrefixes, StorePrefix};
use zarrs::storage::{ListableStorageTraits, ReadableStorageTraits, WritableStorageTraits};
#[async_trait::async_trait]
impl zarrs::storage::AsyncReadableStorageTraits for AsyncMem {
    async fn get_partial_values_key(&self, key: &StoreKey, byte_ranges: &[ByteRange]) -> Result<Option<Vec<AsyncBytes>>, StorageError> {
        Ok(self.0.get_partial_values_key(key, byte_ranges)?.map(|v| v.into_iter().map(|b| AsyncBytes::from(b.to_vec())).collect()))
    }
    async fn size_key(&self, key: &StoreKey) -> Result<Option<u64>, StorageError> { self.0.size_key(key) }
}
#[async_trait::async_trait]
impl zarrs::storage::AsyncWritableStorageTraits for AsyncMem {
    async fn set(&self, key: &StoreKey, value: AsyncBytes) -> Result<(), StorageError> { self.0.set(key, value.to_vec().into()) }
    async fn set_partial_values(&self, kovs: &[StoreKeyOffsetValue]) -> Result<(), StorageError> { self.0.set_partial_values(kovs) }
    async fn erase(&self, key: &StoreKey) -> Result<(), StorageError> { self.0.erase(key) }
    async fn erase_prefix(&self, prefix: &StorePrefix) -> Result<(), StorageError> { self.0.erase_prefix(prefix) }
}
#[async_trait::async_trait]
impl zarrs::storage::AsyncListableStorageTraits for AsyncMem {
    async fn list(&self) -> Result<StoreKeys, StorageError> { self.0.list() }
    async fn list_prefix(&self, prefix: &StorePrefix) -> Result<StoreKeys, StorageError> { self.0.list_prefix(prefix) }
    async fn list_dir(&self, prefix: &StorePrefix) -> Result<StoreKeysPrefixes, StorageError> { self.0.list_dir(prefix) }
    async fn size_prefix(&self, prefix: &StorePrefix) -> Result<u64, StorageError> { self.0.size_prefix(prefix) }
}

/// `None`: the immediate adapter; `Some(seed)`: the latency store
fn new_astore(lat: Option<u64>) -> (AStore, AsyncReadableStorage, Arc<MemoryStore>) {
    match lat {
        None => { let inner = Arc::new(MemoryStore::new()); let s = Arc::new(AsyncMem(inner.clone())); (s.clone(), s, inner) }
        Some(seed) => { let s = Arc::new(LatencyStore::new(seed)); let inner = s.inner.clone(); (s.clone(), s, inner) }
    }
}
fn new_rt() -> tokio::runtime::Runtime { tokio::runtime::Builder::new_current_thread().enable_all().build().unwrap() }
fn parse_lats(m: &BTreeMap<String, String>) -> Vec<Option<u64>> {
    let mut v = vec![None];
    if let Some(s) = m.get("lat") { for t in s.split(',') { if let Ok(x) = t.parse::<u64>() { v.push(Some(x)); } } }
    v
}

/// `Err("MISMATCH …")`: `Array::open` and `Array::async_open` disagree on whether the stored metadata opens
pub fn open_cfg(m: &BTreeMap<String, String>) -> Result<C07Ctx, String> {
    let sync = guarded_res(|| open_ctx(m));
    let rt = new_rt();
    let path = m["path"].clone();
    let meta = unhex(&m["meta"]);
    let mut fl = vec![];
    for lat in parse_lats(m) {
        let (astore, aread, inner) = new_astore(lat);
        let aarr = guarded_res(|| rt.block_on(async {
            astore.set(&meta_key(&path), meta.clone().into()).await.map_err(|e| e.to_string())?;
            Array::async_open(astore.clone(), &path).await.map_err(|e| format!("async open: {}", e))
        }));
        if sync.is_ok() != aarr.is_ok() { return Err(format!("MISMATCH sync-open={} async-open={}", sync.is_ok(), aarr.is_ok())); }
        if sync.is_err() { continue; }
        let aarr = aarr?;
        let d: DynStore = inner.clone();
        let sarr = Array::open(d, &path).map_err(|e| format!("open over the async side's store: {}", e))?;
        fl.push(Flavour { name: match lat { None => "imm".into(), Some(x) => format!("lat{}", x) }, astore, aread, inner, aarr: Arc::new(aarr), sarr: Arc::new(sarr) });
    }
    let sync = sync?;
    Ok(C07Ctx { sync, fl, rt, dtype: m.get("dtype").cloned().unwrap_or_default(), last_meta: None })
}

fn ru<E: std::fmt::Display>(r: Result<(), E>) -> String { match r { Ok(()) => "ok".into(), Err(_) => "err".into() } }
fn rv<E: std::fmt::Display>(es: Option<usize>, r: Result<zarrs::array::ArrayBytes<'_>, E>) -> String {
    match r { Ok(b) => format!("val {}", show_elems(&from_array_bytes(es, b))), Err(_) => "err".into() }
}
fn rvo<E: std::fmt::Display>(es: Option<usize>, r: Result<Option<zarrs::array::ArrayBytes<'_>>, E>) -> String {
    match r { Ok(Some(b)) => format!("val {}", show_elems(&from_array_bytes(es, b))), Ok(None) => "none".into(), Err(_) => "err".into() }
}
/// presence pattern of a list of encoded chunks (the bytes themselves are compared between the two APIs, not reported)
fn pattern<B>(v: &[Option<B>]) -> String { if v.is_empty() { "encs ~".into() } else { format!("encs {}", v.iter().map(|x| if x.is_some() { '1' } else { '0' }).collect::<String>()) } }
fn show_enc(v: &[Option<Vec<u8>>]) -> String { v.iter().map(|x| match x { Some(b) => hex(b), None => "none".into() }).collect::<Vec<_>>().join(",") }
fn el_out<T, E>(r: Result<Vec<T>, E>, conv: impl Fn(T) -> Vec<u8>) -> String {
    match r { Ok(v) => { let xs: Vec<Vec<u8>> = v.into_iter().map(conv).collect(); format!("val {}", show_elems(&xs)) } Err(_) => "err".into() }
}
fn el_out_opt<T, E>(r: Result<Option<Vec<T>>, E>, conv: impl Fn(T) -> Vec<u8>) -> String {
    match r { Ok(Some(v)) => el_out::<T, E>(Ok(v), conv), Ok(None) => "none".into(), Err(_) => "err".into() }
}
/// an ndarray result: its elements in iteration (C) order and a check of its shape against the region it stands for
macro_rules! nd_out {
    ($r:expr, $conv:expr, $want:expr) => { match $r {
        Ok(arr) => { let want: Vec<u64> = $want; let shape_ok = arr.shape().iter().map(|&x| x as u64).collect::<Vec<_>>() == want || (want.contains(&0) && arr.is_empty());
            let xs: Vec<Vec<u8>> = arr.iter().cloned().map($conv).collect(); format!("val {}{}", show_elems(&xs), if shape_ok { "" } else { " badshape" }) }
        Err(_) => "err".to_string() } };
}
macro_rules! nd_out_opt { ($r:expr, $conv:expr, $want:expr) => { match $r { Ok(Some(arr)) => nd_out!(Ok::<_, ()>(arr), $conv, $want), Ok(None) => "none".to_string(), Err(_) => "err".to_string() } }; }
/// dispatch on the data type name: `$go!(element type, element -> native-endian bytes, bytes -> element)`
macro_rules! typed_dispatch {
    ($dt:expr, $go:ident) => { match $dt {
        "uint8" => $go!(u8, |x: u8| vec![x], |b: &[u8]| b[0]),
        "int16" => $go!(i16, |x: i16| x.to_ne_bytes().to_vec(), |b: &[u8]| i16::from_ne_bytes(b.try_into().unwrap())),
        "uint16" => $go!(u16, |x: u16| x.to_ne_bytes().to_vec(), |b: &[u8]| u16::from_ne_bytes(b.try_into().unwrap())),
        "int32" => $go!(i32, |x: i32| x.to_ne_bytes().to_vec(), |b: &[u8]| i32::from_ne_bytes(b.try_into().unwrap())),
        "uint64" => $go!(u64, |x: u64| x.to_ne_bytes().to_vec(), |b: &[u8]| u64::from_ne_bytes(b.try_into().unwrap())),
        "float32" => $go!(f32, |x: f32| x.to_ne_bytes().to_vec(), |b: &[u8]| f32::from_ne_bytes(b.try_into().unwrap())),
        "float64" => $go!(f64, |x: f64| x.to_ne_bytes().to_vec(), |b: &[u8]| f64::from_ne_bytes(b.try_into().unwrap())),
        "string" => $go!(String, |x: String| x.into_bytes(), |b: &[u8]| String::from_utf8_lossy(b).into_owned()),
        _ => "untyped".to_string(),
    } };
}
pub const TYPED_DTYPES: [&str; 8] = ["uint8", "int16", "uint16", "int32", "uint64", "float32", "float64", "string"];

/// the output handle of an asynchronous partial encoder: the async counterpart of `zarrs::array::codec::StoragePartialEncoder`
/// (which has no async form in the library; `Array::partial_encoder` has no async form either — the codec-level
/// `ArrayToBytesCodecTraits::async_partial_encoder` is the asynchronous entry point)
struct AsyncStoragePartialEncoder { store: AStore, key: StoreKey }
#[async_trait::async_trait]
impl AsyncBytesPartialEncoderTraits for AsyncStoragePartialEncoder {
    async fn erase(&self) -> Result<(), CodecError> { Ok(self.store.erase(&self.key).await?) }
    async fn partial_encode(&self, offsets_and_bytes: &[(u64, zarrs::array::RawBytes<'_>)], _options: &CodecOptions) -> Result<(), CodecError> {
        let kovs: Vec<StoreKeyOffsetValue> = offsets_and_bytes.iter().map(|(o, b)| StoreKeyOffsetValue::new(self.key.clone(), *o, b)).collect();
        Ok(self.store.set_partial_values(&kovs).await?)
    }
}
fn erase_version(m: &BTreeMap<String, String>) -> MetadataEraseVersion {
    match m.get("v").map(|s| s.as_str()) { Some("all") => MetadataEraseVersion::All, Some("v3") => MetadataEraseVersion::V3, Some("v2") => MetadataEraseVersion::V2, _ => MetadataEraseVersion::Default }
}
fn retrieve_version(m: &BTreeMap<String, String>) -> zarrs::config::MetadataRetrieveVersion {
    use zarrs::config::MetadataRetrieveVersion as V;
    match m.get("v").map(|s| s.as_str()) { Some("v3") => V::V3, Some("v2") => V::V2, _ => V::Default }
}
fn meta_opts(m: &BTreeMap<String, String>) -> ArrayMetadataOptions { ArrayMetadataOptions::default().with_include_zarrs_metadata(m.get("zm").map(|s| s != "0").unwrap_or(true)) }
fn meta_state(store: &MemoryStore, path: &str) -> (String, Option<Vec<u8>>) {
    match store.get(&meta_key(path)) { Ok(Some(b)) => ("ok meta=present".into(), Some(b.to_vec())), Ok(None) => ("ok meta=absent".into(), None), Err(_) => ("err-get".into(), None) }
}
fn penc_args(m: &BTreeMap<String, String>, es: Option<usize>) -> (Vec<ArraySubset>, Vec<ArrayBytes<'static>>) {
    let subs: Vec<ArraySubset> = m["rs"].split('|').map(parse_subset).collect();
    let datas: Vec<ArrayBytes<'static>> = m["data"].split('|').map(|d| to_array_bytes(es, &parse_elems(d))).collect();
    (subs, datas)
}

fn exec_async(ctx: &mut C07Ctx, fi: usize, verb: &str, m: &BTreeMap<String, String>) -> String {
    let es = ctx.sync.es;
    let a = ctx.fl[fi].aarr.clone();
    let sa = ctx.fl[fi].sarr.clone();
    let o = ctx.sync.opts.clone();
    let astore = ctx.fl[fi].astore.clone();
    let aread = ctx.fl[fi].aread.clone();
    let inner = ctx.fl[fi].inner.clone();
    let path = ctx.sync.path.clone();
    let dtype = ctx.dtype.clone();
    let dtype = dtype.as_str();
    let dflt = m.get("dflt").map(|s| s == "1").unwrap_or(false);
    let last_meta = ctx.last_meta.clone();
    let rt = &ctx.rt;
    let mut new_arr: Option<AArr> = None;
    let out = guarded(|| rt.block_on(async {
        match verb {
            "store_chunk" => ru(a.async_store_chunk_opt(&pnl(&m["c"]), to_array_bytes(es, &parse_elems(&m["data"])), &o).await),
            "store_chunks" => ru(a.async_store_chunks_opt(&parse_subset(&m["box"]), to_array_bytes(es, &parse_elems(&m["data"])), &o).await),
            "store_chunk_subset" => ru(a.async_store_chunk_subset_opt(&pnl(&m["c"]), &parse_subset(&m["r"]), to_array_bytes(es, &parse_elems(&m["data"])), &o).await),
            "store_array_subset" => ru(a.async_store_array_subset_opt(&parse_subset(&m["r"]), to_array_bytes(es, &parse_elems(&m["data"])), &o).await),
            "erase_chunk" => ru(a.async_erase_chunk(&pnl(&m["c"])).await),
            "erase_chunks" => ru(a.async_erase_chunks(&parse_subset(&m["box"])).await),
            // the forms without options (= the default options; generated only where those equal the options of the case)
            "store_chunk" if dflt => ru(a.async_store_chunk(&pnl(&m["c"]), to_array_bytes(es, &parse_elems(&m["data"]))).await),
            "store_chunks" if dflt => ru(a.async_store_chunks(&parse_subset(&m["box"]), to_array_bytes(es, &parse_elems(&m["data"]))).await),
            "store_chunk_subset" if dflt => ru(a.async_store_chunk_subset(&pnl(&m["c"]), &parse_subset(&m["r"]), to_array_bytes(es, &parse_elems(&m["data"]))).await),
            "store_array_subset" if dflt => ru(a.async_store_array_subset(&parse_subset(&m["r"]), to_array_bytes(es, &parse_elems(&m["data"]))).await),
            "retrieve_chunk" if dflt => rv(es, a.async_retrieve_chunk(&pnl(&m["c"])).await),
            "retrieve_chunk_if_exists" if dflt => rvo(es, a.async_retrieve_chunk_if_exists(&pnl(&m["c"])).await),
            "retrieve_chunks" if dflt => rv(es, a.async_retrieve_chunks(&parse_subset(&m["box"])).await),
            "retrieve_chunk_subset" if dflt => rv(es, a.async_retrieve_chunk_subset(&pnl(&m["c"]), &parse_subset(&m["r"])).await),
            "retrieve_array_subset" if dflt => rv(es, a.async_retrieve_array_subset(&parse_subset(&m["r"])).await),
            "retrieve_chunk" => rv(es, a.async_retrieve_chunk_opt(&pnl(&m["c"]), &o).await),
            "retrieve_chunk_if_exists" => rvo(es, a.async_retrieve_chunk_if_exists_opt(&pnl(&m["c"]), &o).await),
            "retrieve_chunks" => rv(es, a.async_retrieve_chunks_opt(&parse_subset(&m["box"]), &o).await),
            "retrieve_chunk_subset" => rv(es, a.async_retrieve_chunk_subset_opt(&pnl(&m["c"]), &parse_subset(&m["r"]), &o).await),
            "retrieve_array_subset" => rv(es, a.async_retrieve_array_subset_opt(&parse_subset(&m["r"]), &o).await),
            // encoded chunks: the synchronous form over the SAME store contents (this flavour's MemoryStore) against the
            // asynchronous form, byte for byte and position for position
            "enc_chunk" => {
                let c = pnl(&m["c"]);
                let s = sa.retrieve_encoded_chunk(&c);
                let r = a.async_retrieve_encoded_chunk(&c).await;
                match (s, r) {
                    (Ok(s), Ok(r)) => { let r = r.map(|b| b.to_vec()); if s == r { if s.is_some() { "enc some".into() } else { "enc none".into() } } else { format!("BYTES sync={} async={}", show_enc(&[s]), show_enc(&[r])) } }
                    (Err(_), Err(_)) => "err".into(),
                    (s, r) => format!("ERRS sync={} async={}", s.is_err(), r.is_err()),
                }
            }
            "enc_chunks" => {
                let b = parse_subset(&m["box"]);
                let s = sa.retrieve_encoded_chunks(&b, &o);
                let r = a.async_retrieve_encoded_chunks(&b, &o).await;
                match (s, r) {
                    (Ok(s), Ok(r)) => { let r: Vec<Option<Vec<u8>>> = r.into_iter().map(|x| x.map(|b| b.to_vec())).collect(); if s == r { pattern(&s) } else { format!("BYTES sync={} async={}", show_enc(&s), show_enc(&r)) } }
                    (Err(_), Err(_)) => "err".into(),
                    (s, r) => format!("ERRS sync={} async={}", s.is_err(), r.is_err()),
                }
            }
            // typed element forms
            "typed_chunk" => { let c = pnl(&m["c"]); macro_rules! go { ($t:ty, $conv:expr, $from:expr) => { el_out(a.async_retrieve_chunk_elements_opt::<$t>(&c, &o).await, $conv) } } typed_dispatch!(dtype, go) }
            "typed_chunk_if_exists" => { let c = pnl(&m["c"]); macro_rules! go { ($t:ty, $conv:expr, $from:expr) => { el_out_opt(a.async_retrieve_chunk_elements_if_exists_opt::<$t>(&c, &o).await, $conv) } } typed_dispatch!(dtype, go) }
            "typed_chunks" => { let b = parse_subset(&m["box"]); macro_rules! go { ($t:ty, $conv:expr, $from:expr) => { el_out(a.async_retrieve_chunks_elements_opt::<$t>(&b, &o).await, $conv) } } typed_dispatch!(dtype, go) }
            "typed_chunk_subset" => { let c = pnl(&m["c"]); let r = parse_subset(&m["r"]); macro_rules! go { ($t:ty, $conv:expr, $from:expr) => { el_out(a.async_retrieve_chunk_subset_elements_opt::<$t>(&c, &r, &o).await, $conv) } } typed_dispatch!(dtype, go) }
            "typed_subset" => { let r = parse_subset(&m["r"]); macro_rules! go { ($t:ty, $conv:expr, $from:expr) => { el_out(a.async_retrieve_array_subset_elements_opt::<$t>(&r, &o).await, $conv) } } typed_dispatch!(dtype, go) }
            // ndarray forms
            "nd_chunk" => { let c = pnl(&m["c"]); let want: Vec<u64> = a.chunk_shape(&c).map(|s| s.iter().map(|x| x.get()).collect()).unwrap_or_default();
                macro_rules! go { ($t:ty, $conv:expr, $from:expr) => { nd_out!(a.async_retrieve_chunk_ndarray_opt::<$t>(&c, &o).await, $conv, want.clone()) } } typed_dispatch!(dtype, go) }
            "nd_chunk_if_exists" => { let c = pnl(&m["c"]); let want: Vec<u64> = a.chunk_shape(&c).map(|s| s.iter().map(|x| x.get()).collect()).unwrap_or_default();
                macro_rules! go { ($t:ty, $conv:expr, $from:expr) => { nd_out_opt!(a.async_retrieve_chunk_ndarray_if_exists_opt::<$t>(&c, &o).await, $conv, want.clone()) } } typed_dispatch!(dtype, go) }
            "nd_chunks" => { let b = parse_subset(&m["box"]); let want: Vec<u64> = a.chunks_subset(&b).map(|s| s.shape().to_vec()).unwrap_or_default();
                macro_rules! go { ($t:ty, $conv:expr, $from:expr) => { nd_out!(a.async_retrieve_chunks_ndarray_opt::<$t>(&b, &o).await, $conv, want.clone()) } } typed_dispatch!(dtype, go) }
            "nd_chunk_subset" => { let c = pnl(&m["c"]); let r = parse_subset(&m["r"]);
                macro_rules! go { ($t:ty, $conv:expr, $from:expr) => { nd_out!(a.async_retrieve_chunk_subset_ndarray_opt::<$t>(&c, &r, &o).await, $conv, r.shape().to_vec()) } } typed_dispatch!(dtype, go) }
            "nd_subset" => { let r = parse_subset(&m["r"]);
                macro_rules! go { ($t:ty, $conv:expr, $from:expr) => { nd_out!(a.async_retrieve_array_subset_ndarray_opt::<$t>(&r, &o).await, $conv, r.shape().to_vec()) } } typed_dispatch!(dtype, go) }
            // typed element stores
            "tstore_chunk" => { let c = pnl(&m["c"]); let xs = parse_elems(&m["data"]);
                macro_rules! go { ($t:ty, $conv:expr, $from:expr) => {{ let v: Vec<$t> = xs.iter().map(|b| $from(&b[..])).collect(); ru(a.async_store_chunk_elements_opt::<$t>(&c, &v, &o).await) }} } typed_dispatch!(dtype, go) }
            "tstore_chunks" => { let b = parse_subset(&m["box"]); let xs = parse_elems(&m["data"]);
                macro_rules! go { ($t:ty, $conv:expr, $from:expr) => {{ let v: Vec<$t> = xs.iter().map(|b| $from(&b[..])).collect(); ru(a.async_store_chunks_elements_opt::<$t>(&b, &v, &o).await) }} } typed_dispatch!(dtype, go) }
            "tstore_chunk_subset" => { let c = pnl(&m["c"]); let r = parse_subset(&m["r"]); let xs = parse_elems(&m["data"]);
                macro_rules! go { ($t:ty, $conv:expr, $from:expr) => {{ let v: Vec<$t> = xs.iter().map(|b| $from(&b[..])).collect(); ru(a.async_store_chunk_subset_elements_opt::<$t>(&c, &r, &v, &o).await) }} } typed_dispatch!(dtype, go) }
            "tstore_array_subset" => { let r = parse_subset(&m["r"]); let xs = parse_elems(&m["data"]);
                macro_rules! go { ($t:ty, $conv:expr, $from:expr) => {{ let v: Vec<$t> = xs.iter().map(|b| $from(&b[..])).collect(); ru(a.async_store_array_subset_elements_opt::<$t>(&r, &v, &o).await) }} } typed_dispatch!(dtype, go) }
            // metadata
            "store_metadata" => {
                if a.async_store_metadata_opt(&meta_opts(m)).await.is_err() { return "err".to_string(); }
                let (s, bytes) = meta_state(&inner, &path);
                if bytes == last_meta { s } else { format!("META-BYTES sync={} async={}", show_enc(&[last_meta.clone()]), show_enc(&[bytes])) }
            }
            "open_opt" => ru(Array::async_open_opt(astore.clone(), &path, &retrieve_version(m)).await.map(|_| ())),
            "erase_metadata" => { if a.async_erase_metadata_opt(erase_version(m)).await.is_err() { return "err".to_string(); } meta_state(&inner, &path).0 }
            // partial decoder / encoder
            "pdx" => {
                let c = pnl(&m["c"]);
                let rs: Vec<_> = m["rs"].split('|').map(parse_subset).collect();
                let pd = match if dflt { a.async_partial_decoder(&c).await } else { a.async_partial_decoder_opt(&c, &o).await } { Ok(p) => p, Err(_) => return "err".to_string() };
                match pd.partial_decode(&rs, &o).await {
                    Ok(parts) => format!("val {}", parts.into_iter().map(|b| show_elems(&from_array_bytes(es, b))).collect::<Vec<_>>().join("|")),
                    Err(_) => "err".into(),
                }
            }
            "penc" | "penc_erase" => {
                let c = pnl(&m["c"]);
                let key = a.chunk_key(&c);
                let repr = match a.chunk_array_representation(&c) { Ok(r) => r, Err(_) => return "err".to_string() };
                let input = Arc::new(AsyncStoragePartialDecoder::new(aread.clone(), key.clone()));
                let output = Arc::new(AsyncStoragePartialEncoder { store: astore.clone(), key });
                let codecs: Arc<dyn ArrayToBytesCodecTraits> = Arc::new(a.codecs().clone());
                let pe = match codecs.async_partial_encoder(input, output, &repr, &o).await { Ok(p) => p, Err(_) => return "err".to_string() };
                if verb == "penc_erase" { return ru(pe.erase().await); }
                let (subs, datas) = penc_args(m, es);
                let sb: Vec<(&ArraySubset, ArrayBytes<'_>)> = subs.iter().zip(datas.into_iter()).collect();
                ru(pe.partial_encode(&sb, &o).await)
            }
            "keys" => {
                let mut ks: Vec<String> = astore.list().await.unwrap_or_default().iter().map(|k| k.as_str().to_string()).collect();
                let mk = meta_key(&path).as_str().to_string();
                ks.retain(|k| k != &mk);
                ks.sort();
                if ks.is_empty() { "keys ~".into() } else { format!("keys {}", ks.join(",")) }
            }
            "reopen" => {
                if a.async_store_metadata().await.is_err() { return "err".to_string(); }
                match Array::async_open(astore.clone(), &path).await { Ok(arr) => { new_arr = Some(arr); "ok".into() } Err(_) => "err".into() }
            }
            _ => "bad-op".into(),
        }
    }));
    if let Some(arr) = new_arr {
        ctx.fl[fi].aarr = Arc::new(arr);
        let d: DynStore = ctx.fl[fi].inner.clone();
        if let Ok(sarr) = Array::open(d, &ctx.sync.path) { ctx.fl[fi].sarr = Arc::new(sarr); }
    }
    out
}

fn exec_sync(ctx: &mut C07Ctx, verb: &str, m: &BTreeMap<String, String>) -> String {
    let a = ctx.sync.array.clone();
    let es = ctx.sync.es;
    let o = ctx.sync.opts.clone();
    let dtype = ctx.dtype.clone();
    let dtype = dtype.as_str();
    let dflt = m.get("dflt").map(|s| s == "1").unwrap_or(false);
    let path = ctx.sync.path.clone();
    let store = ctx.sync.store.store.clone();
    let mut meta_bytes: Option<Option<Vec<u8>>> = None;
    let out = guarded(|| match verb {
        "store_chunk" if dflt => ru(a.store_chunk(&pnl(&m["c"]), to_array_bytes(es, &parse_elems(&m["data"])))),
        "store_chunks" if dflt => ru(a.store_chunks(&parse_subset(&m["box"]), to_array_bytes(es, &parse_elems(&m["data"])))),
        "store_chunk_subset" if dflt => ru(a.store_chunk_subset(&pnl(&m["c"]), &parse_subset(&m["r"]), to_array_bytes(es, &parse_elems(&m["data"])))),
        "store_array_subset" if dflt => ru(a.store_array_subset(&parse_subset(&m["r"]), to_array_bytes(es, &parse_elems(&m["data"])))),
        "open_opt" => { let s: DynStore = store.clone(); ru(Array::open_opt(s, &path, &retrieve_version(m)).map(|_| ())) }
        "retrieve_chunk" if dflt => rv(es, a.retrieve_chunk(&pnl(&m["c"]))),
        "retrieve_chunk_if_exists" if dflt => rvo(es, a.retrieve_chunk_if_exists(&pnl(&m["c"]))),
        "retrieve_chunks" if dflt => rv(es, a.retrieve_chunks(&parse_subset(&m["box"]))),
        "retrieve_chunk_subset" if dflt => rv(es, a.retrieve_chunk_subset(&pnl(&m["c"]), &parse_subset(&m["r"]))),
        "retrieve_array_subset" if dflt => rv(es, a.retrieve_array_subset(&parse_subset(&m["r"]))),
        "enc_chunk" => match a.retrieve_encoded_chunk(&pnl(&m["c"])) { Ok(Some(_)) => "enc some".into(), Ok(None) => "enc none".into(), Err(_) => "err".into() },
        "enc_chunks" => match a.retrieve_encoded_chunks(&parse_subset(&m["box"]), &o) { Ok(v) => pattern(&v), Err(_) => "err".into() },
        "typed_chunk" => { let c = pnl(&m["c"]); macro_rules! go { ($t:ty, $conv:expr, $from:expr) => { el_out(a.retrieve_chunk_elements_opt::<$t>(&c, &o), $conv) } } typed_dispatch!(dtype, go) }
        "typed_chunk_if_exists" => { let c = pnl(&m["c"]); macro_rules! go { ($t:ty, $conv:expr, $from:expr) => { el_out_opt(a.retrieve_chunk_elements_if_exists_opt::<$t>(&c, &o), $conv) } } typed_dispatch!(dtype, go) }
        "typed_chunks" => { let b = parse_subset(&m["box"]); macro_rules! go { ($t:ty, $conv:expr, $from:expr) => { el_out(a.retrieve_chunks_elements_opt::<$t>(&b, &o), $conv) } } typed_dispatch!(dtype, go) }
        "typed_chunk_subset" => { let c = pnl(&m["c"]); let r = parse_subset(&m["r"]); macro_rules! go { ($t:ty, $conv:expr, $from:expr) => { el_out(a.retrieve_chunk_subset_elements_opt::<$t>(&c, &r, &o), $conv) } } typed_dispatch!(dtype, go) }
        "typed_subset" => { let r = parse_subset(&m["r"]); macro_rules! go { ($t:ty, $conv:expr, $from:expr) => { el_out(a.retrieve_array_subset_elements_opt::<$t>(&r, &o), $conv) } } typed_dispatch!(dtype, go) }
        "nd_chunk" => { let c = pnl(&m["c"]); let want: Vec<u64> = a.chunk_shape(&c).map(|s| s.iter().map(|x| x.get()).collect()).unwrap_or_default();
            macro_rules! go { ($t:ty, $conv:expr, $from:expr) => { nd_out!(a.retrieve_chunk_ndarray_opt::<$t>(&c, &o), $conv, want.clone()) } } typed_dispatch!(dtype, go) }
        "nd_chunk_if_exists" => { let c = pnl(&m["c"]); let want: Vec<u64> = a.chunk_shape(&c).map(|s| s.iter().map(|x| x.get()).collect()).unwrap_or_default();
            macro_rules! go { ($t:ty, $conv:expr, $from:expr) => { nd_out_opt!(a.retrieve_chunk_ndarray_if_exists_opt::<$t>(&c, &o), $conv, want.clone()) } } typed_dispatch!(dtype, go) }
        "nd_chunks" => { let b = parse_subset(&m["box"]); let want: Vec<u64> = a.chunks_subset(&b).map(|s| s.shape().to_vec()).unwrap_or_default();
            macro_rules! go { ($t:ty, $conv:expr, $from:expr) => { nd_out!(a.retrieve_chunks_ndarray_opt::<$t>(&b, &o), $conv, want.clone()) } } typed_dispatch!(dtype, go) }
        "nd_chunk_subset" => { let c = pnl(&m["c"]); let r = parse_subset(&m["r"]);
            macro_rules! go { ($t:ty, $conv:expr, $from:expr) => { nd_out!(a.retrieve_chunk_subset_ndarray_opt::<$t>(&c, &r, &o), $conv, r.shape().to_vec()) } } typed_dispatch!(dtype, go) }
        "nd_subset" => { let r = parse_subset(&m["r"]);
            macro_rules! go { ($t:ty, $conv:expr, $from:expr) => { nd_out!(a.retrieve_array_subset_ndarray_opt::<$t>(&r, &o), $conv, r.shape().to_vec()) } } typed_dispatch!(dtype, go) }
        "tstore_chunk" => { let c = pnl(&m["c"]); let xs = parse_elems(&m["data"]);
            macro_rules! go { ($t:ty, $conv:expr, $from:expr) => {{ let v: Vec<$t> = xs.iter().map(|b| $from(&b[..])).collect(); ru(a.store_chunk_elements_opt::<$t>(&c, &v, &o)) }} } typed_dispatch!(dtype, go) }
        "tstore_chunks" => { let b = parse_subset(&m["box"]); let xs = parse_elems(&m["data"]);
            macro_rules! go { ($t:ty, $conv:expr, $from:expr) => {{ let v: Vec<$t> = xs.iter().map(|b| $from(&b[..])).collect(); ru(a.store_chunks_elements_opt::<$t>(&b, &v, &o)) }} } typed_dispatch!(dtype, go) }
        "tstore_chunk_subset" => { let c = pnl(&m["c"]); let r = parse_subset(&m["r"]); let xs = parse_elems(&m["data"]);
            macro_rules! go { ($t:ty, $conv:expr, $from:expr) => {{ let v: Vec<$t> = xs.iter().map(|b| $from(&b[..])).collect(); ru(a.store_chunk_subset_elements_opt::<$t>(&c, &r, &v, &o)) }} } typed_dispatch!(dtype, go) }
        "tstore_array_subset" => { let r = parse_subset(&m["r"]); let xs = parse_elems(&m["data"]);
            macro_rules! go { ($t:ty, $conv:expr, $from:expr) => {{ let v: Vec<$t> = xs.iter().map(|b| $from(&b[..])).collect(); ru(a.store_array_subset_elements_opt::<$t>(&r, &v, &o)) }} } typed_dispatch!(dtype, go) }
        "store_metadata" => {
            if a.store_metadata_opt(&meta_opts(m)).is_err() { return "err".to_string(); }
            match store.get(&meta_key(&path)) { Ok(Some(b)) => { meta_bytes = Some(Some(b.to_vec())); "ok meta=present".into() } Ok(None) => { meta_bytes = Some(None); "ok meta=absent".into() } Err(_) => "err-get".into() }
        }
        "erase_metadata" => {
            if a.erase_metadata_opt(erase_version(m)).is_err() { return "err".to_string(); }
            match store.get(&meta_key(&path)) { Ok(Some(_)) => "ok meta=present".into(), Ok(None) => "ok meta=absent".into(), Err(_) => "err-get".into() }
        }
        "pdx" => {
            let c = pnl(&m["c"]);
            let rs: Vec<_> = m["rs"].split('|').map(parse_subset).collect();
            let pd = match if dflt { a.partial_decoder(&c) } else { a.partial_decoder_opt(&c, &o) } { Ok(p) => p, Err(_) => return "err".into() };
            match pd.partial_decode(&rs, &o) {
                Ok(parts) => format!("val {}", parts.into_iter().map(|b| show_elems(&from_array_bytes(es, b))).collect::<Vec<_>>().join("|")),
                Err(_) => "err".into(),
            }
        }
        "penc" | "penc_erase" => {
            let c = pnl(&m["c"]);
            let pe: Arc<dyn ArrayPartialEncoderTraits> = match a.partial_encoder(&c, &o) { Ok(p) => p, Err(_) => return "err".into() };
            if verb == "penc_erase" { return ru(pe.erase()); }
            let (subs, datas) = penc_args(m, es);
            let sb: Vec<(&ArraySubset, ArrayBytes<'_>)> = subs.iter().zip(datas.into_iter()).collect();
            ru(pe.partial_encode(&sb, &o))
        }
        _ => "delegate".into(),
    });
    if let Some(b) = meta_bytes { ctx.last_meta = b; }
    if out == "delegate" { exec_op(&mut ctx.sync, verb, m) } else { out }
}

pub fn exec(ctx: &mut C07Ctx, verb: &str, m: &BTreeMap<String, String>) -> String {
    if verb == "contents" {
        // readable contents of all stores through fresh synchronous handles
        let path = ctx.sync.path.clone();
        let es = ctx.sync.es;
        let read = |s: DynStore| -> String { guarded(|| match Array::open(s, &path) {
            Ok(a) => match a.retrieve_array_subset(&ArraySubset::new_with_shape(a.shape().to_vec())) { Ok(b) => format!("val {}", show_elems(&from_array_bytes(es, b))), Err(_) => "err".into() },
            Err(_) => "err-open".into() }) };
        let a = read(ctx.sync.store.store.clone());
        for f in &ctx.fl {
            let b = read(Arc::new(AsyncToSyncStorageAdapter::new(f.astore.clone(), rt())));
            if a != b { return format!("MISMATCH sync={} async[{}]={}", a, f.name, b); }
        }
        return a;
    }
    if verb == "corrupt_entry" {
        // `corrupt_entry c=<chunk> i=<entry> nchunks=<n> idx=<end|start>:<little|big> icrc=<0|1> delta=<k>`: in EVERY store of the
        // case (the layouts may differ) the stored size of index entry i of the shard is changed by `delta` (the index checksum
        // is recomputed); `ok` when the entry was live everywhere, else `skip` (nothing changed)
        let c = pnl(&m["c"]);
        let key = ctx.sync.array.chunk_key(&c);
        let n: usize = m["nchunks"].parse().unwrap();
        let i: usize = m["i"].parse().unwrap();
        let parts: Vec<&str> = m["idx"].split(':').collect();
        let icrc = m["icrc"] == "1";
        let delta: i64 = m["delta"].parse().unwrap();
        let isz = 16 * n + if icrc { 4 } else { 0 };
        let mut stores: Vec<DynStore> = vec![ctx.sync.store.store.clone()];
        for f in &ctx.fl { let d: DynStore = f.inner.clone(); stores.push(d); }
        let mut news = vec![];
        for st in &stores {
            let v = match st.get(&key) { Ok(Some(b)) => b.to_vec(), _ => return "skip".into() };
            if v.len() < isz { return "skip".into(); }
            let base = if parts[0] == "end" { v.len() - isz } else { 0 };
            let p = base + 16 * i + 8;
            let b: [u8; 8] = v[p..p + 8].try_into().unwrap();
            let size = if parts[1] == "big" { u64::from_be_bytes(b) } else { u64::from_le_bytes(b) };
            if size == u64::MAX || (size as i64 + delta) < 0 { return "skip".into(); }
            let ns = (size as i64 + delta) as u64;
            let mut w = v.clone();
            w[p..p + 8].copy_from_slice(&if parts[1] == "big" { ns.to_be_bytes() } else { ns.to_le_bytes() });
            if icrc { let crc = crate::c15::crc32c_bitwise(&w[base..base + 16 * n]); w[base + 16 * n..base + 16 * n + 4].copy_from_slice(&crc.to_le_bytes()); }
            news.push(w);
        }
        for (st, w) in stores.iter().zip(news) { let _ = st.set(&key, w.into()); }
        return "ok".into();
    }
    let s = exec_sync(ctx, verb, m);
    // every flavour executes the operation (their stores stay in step); the first disagreement is reported
    let mut bad: Option<String> = None;
    for fi in 0..ctx.fl.len() {
        let a = exec_async(ctx, fi, verb, m);
        if a != s && bad.is_none() { bad = Some(format!("MISMATCH sync={} async[{}]={}", s, ctx.fl[fi].name, a)); }
    }
    bad.unwrap_or(s)
}

// ---------------------------------------------------------------- hierarchy: sync and async forms over one store

pub struct HCtx { pub astore: AStore, pub inner: Arc<MemoryStore>, pub sync: DynStore, pub rt: tokio::runtime::Runtime }
/// `c07 hcfg lat=<seed>`: the hierarchy lives in a latency store (absent or `lat=-`: the immediate adapter)
pub fn open_hcfg(m: &BTreeMap<String, String>) -> HCtx {
    let (astore, _, inner) = new_astore(m.get("lat").and_then(|s| s.parse::<u64>().ok()));
    HCtx { sync: Arc::new(AsyncToSyncStorageAdapter::new(astore.clone(), rt())), astore, inner, rt: new_rt() }
}
fn dump(store: &MemoryStore) -> Vec<(StoreKey, Vec<u8>)> {
    let mut ks = store.list().unwrap_or_default(); ks.sort();
    ks.into_iter().map(|k| { let v = store.get(&k).ok().flatten().map(|b| b.to_vec()).unwrap_or_default(); (k, v) }).collect()
}
fn restore(store: &MemoryStore, d: &[(StoreKey, Vec<u8>)]) {
    let _ = store.erase_prefix(&StorePrefix::root());
    for (k, v) in d { let _ = store.set(k, v.clone().into()); }
}

fn kind_of(md: &NodeMetadata) -> &'static str {
    match md {
        NodeMetadata::Array(ArrayMetadata::V3(_)) => "array3", NodeMetadata::Array(ArrayMetadata::V2(_)) => "array2",
        NodeMetadata::Group(GroupMetadata::V3(_)) => "group3", NodeMetadata::Group(GroupMetadata::V2(_)) => "group2",
    }
}
fn flatten(nodes: &[Node], out: &mut Vec<String>) { for n in nodes { out.push(format!("{}:{}", n.path().as_str(), kind_of(n.metadata()))); flatten(n.children(), out); } }
fn show(mut v: Vec<String>) -> String { v.sort(); if v.is_empty() { "~".into() } else { v.join(",") } }
fn key(s: &str) -> StoreKey { StoreKey::new(s).unwrap() }
const V3_ARRAY: &str = r#"{"zarr_format":3,"node_type":"array","shape":[2],"data_type":"uint8","chunk_grid":{"name":"regular","configuration":{"chunk_shape":[1]}},"chunk_key_encoding":{"name":"default","configuration":{"separator":"/"}},"fill_value":0,"codecs":[{"name":"bytes"}]}"#;
const V2_ARRAY: &str = r#"{"zarr_format":2,"shape":[2],"chunks":[1],"dtype":"|u1","compressor":null,"fill_value":0,"order":"C","filters":null}"#;

pub fn exec_hop(ctx: &HCtx, verb: &str, m: &BTreeMap<String, String>) -> String {
    let p = m.get("p").cloned().unwrap_or_default();
    let rel = p.trim_start_matches('/').to_string();
    let mk = |name: &str| if rel.is_empty() { name.to_string() } else { format!("{}/{}", rel, name) };
    let store = ctx.sync.clone();
    let astore = ctx.astore.clone();
    let paths = |v: Vec<NodePath>| show(v.iter().map(|x| x.as_str().to_string()).collect());
    // metadata mutations with both forms (`Group::store_metadata` / `async_store_metadata`, `Group|Array::erase_metadata` /
    // `async_erase_metadata`): the synchronous form runs, the store is put back, the asynchronous form runs; outcomes and
    // resulting stores (keys and bytes) are compared
    if (verb == "mkgroup" && m["v"] == "3") || verb == "rmmeta" || verb == "setattrs" {
        let before = dump(&ctx.inner);
        let s = guarded(|| match verb {
            "mkgroup" => match Group::new_with_metadata(store.clone(), &p, GroupMetadata::V3(GroupMetadataV3::new())) { Ok(g) => ru(g.store_metadata()), Err(_) => "err-path".into() },
            "setattrs" => {
                // the node's attributes replaced by `n` entries and its metadata stored (V2: `.zattrs` written / removed)
                let n: usize = m["n"].parse().unwrap();
                let attrs: serde_json::Map<String, serde_json::Value> = (0..n).map(|i| (format!("k{}", i), serde_json::Value::from(i as u64))).collect();
                if let Ok(mut g) = Group::open(store.clone(), &p) { { let at = g.attributes_mut(); at.clear(); at.extend(attrs); } return ru(g.store_metadata()); }
                if let Ok(mut a) = Array::open(store.clone(), &p) { { let at = a.attributes_mut(); at.clear(); at.extend(attrs); } return ru(a.store_metadata()); }
                "none".into()
            }
            _ => {
                if let Ok(g) = Group::open(store.clone(), &p) { return ru(g.erase_metadata()); }
                if let Ok(a) = Array::open(store.clone(), &p) { return ru(a.erase_metadata()); }
                "none".into()
            }
        });
        let after_s = dump(&ctx.inner);
        restore(&ctx.inner, &before);
        let a = guarded(|| ctx.rt.block_on(async { match verb {
            "mkgroup" => match Group::new_with_metadata(astore.clone(), &p, GroupMetadata::V3(GroupMetadataV3::new())) { Ok(g) => ru(g.async_store_metadata().await), Err(_) => "err-path".into() },
            "setattrs" => {
                let n: usize = m["n"].parse().unwrap();
                let attrs: serde_json::Map<String, serde_json::Value> = (0..n).map(|i| (format!("k{}", i), serde_json::Value::from(i as u64))).collect();
                if let Ok(mut g) = Group::async_open(astore.clone(), &p).await { { let at = g.attributes_mut(); at.clear(); at.extend(attrs); } return ru(g.async_store_metadata().await); }
                if let Ok(mut a) = Array::async_open(astore.clone(), &p).await { { let at = a.attributes_mut(); at.clear(); at.extend(attrs); } return ru(a.async_store_metadata().await); }
                "none".into()
            }
            _ => {
                if let Ok(g) = Group::async_open(astore.clone(), &p).await { return ru(g.async_erase_metadata().await); }
                if let Ok(a) = Array::async_open(astore.clone(), &p).await { return ru(a.async_erase_metadata().await); }
                "none".into()
            }
        } }));
        let after_a = dump(&ctx.inner);
        return if s == a && after_s == after_a { s } else if s != a { format!("MISMATCH sync={} async={}", s, a) }
            else { format!("MISMATCH sync-store={} async-store={}", after_s.iter().map(|(k, v)| format!("{}:{}", k.as_str(), hex(v))).collect::<Vec<_>>().join(","), after_a.iter().map(|(k, v)| format!("{}:{}", k.as_str(), hex(v))).collect::<Vec<_>>().join(",")) };
    }
    // the synchronous form
    let s = guarded(|| match verb {
        "mkgroup" => if m["v"] == "3" {
                match Group::new_with_metadata(store.clone(), &p, GroupMetadata::V3(GroupMetadataV3::new())) { Ok(g) => ru(g.store_metadata()), Err(_) => "err-path".into() }
            } else { ru(store.set(&key(&mk(".zgroup")), br#"{"zarr_format":2}"#.to_vec().into())) },
        "mkarray" => { let (name, doc, ck) = if m["v"] == "3" { ("zarr.json", V3_ARRAY, mk("c/0")) } else { (".zarray", V2_ARRAY, mk("0")) };
            match store.set(&key(&mk(name)), doc.as_bytes().to_vec().into()) { Ok(()) => { let _ = store.set(&key(&ck), vec![7u8].into()); "ok".into() } Err(_) => "err".into() } }
        "stray" => ru(store.set(&key(&m["k"]), vec![1u8].into())),
        "rmnode" => ru(store.erase_prefix(&zarrs::storage::StorePrefix::new(&if rel.is_empty() { String::new() } else { format!("{}/", rel) }).unwrap())),
        "children" => { let g = match Group::open(store.clone(), &p) { Ok(g) => g, Err(_) => return "nogroup".into() };
            let rec = m["rec"] == "1";
            match g.children(rec) { Ok(ns) => { let mut out = vec![]; if rec { flatten(&ns, &mut out); } else { for n in &ns { out.push(format!("{}:{}", n.path().as_str(), kind_of(n.metadata()))); } } format!("nodes {}", show(out)) } Err(_) => "err".into() } }
        "paths" => { let g = match Group::open(store.clone(), &p) { Ok(g) => g, Err(_) => return "nogroup".into() };
            let f = |r: Result<Vec<NodePath>, zarrs::node::NodeCreateError>| match r { Ok(v) => paths(v), Err(_) => "err".into() };
            format!("all={} groups={} arrays={}", f(g.child_paths(false)), f(g.child_group_paths(false)), f(g.child_array_paths(false))) }
        "objs" => { let g = match Group::open(store.clone(), &p) { Ok(g) => g, Err(_) => return "nogroup".into() };
            let gs = match g.child_groups(false) { Ok(v) => show(v.iter().map(|x| x.path().as_str().to_string()).collect()), Err(_) => "err".into() };
            let as_ = match g.child_arrays(false) { Ok(v) => show(v.iter().map(|x| x.path().as_str().to_string()).collect()), Err(_) => "err".into() };
            format!("groups={} arrays={}", gs, as_) }
        "tree" => match Node::open(&store, &p) { Ok(n) => { let mut out = vec![format!("{}:{}", n.path().as_str(), kind_of(n.metadata()))]; flatten(n.children(), &mut out); format!("nodes {}", show(out)) } Err(_) => "err".into() },
        "exists" => { let np = match NodePath::new(&p) { Ok(x) => x, Err(_) => return "err-path".into() };
            let a = zarrs::node::node_exists(&store, &np).map(|b| b.to_string()).unwrap_or("err".into());
            let b = zarrs::node::node_exists_listable(&store, &np).map(|b| b.to_string()).unwrap_or("err".into());
            format!("val {} {}", a, b) }
        "keys" => { let ks: Vec<String> = store.list().unwrap_or_default().iter().map(|k| k.as_str().to_string()).collect(); format!("keys {}", show(ks)) }
        _ => "bad-op".into(),
    });
    // the asynchronous form of the queries (mutations were applied once, through the synchronous form)
    let a = match verb {
        "children" | "paths" | "objs" | "tree" | "exists" => guarded(|| ctx.rt.block_on(async {
            match verb {
                "children" => { let g = match Group::async_open(astore.clone(), &p).await { Ok(g) => g, Err(_) => return "nogroup".to_string() };
                    let rec = m["rec"] == "1";
                    match g.async_children(rec).await { Ok(ns) => { let mut out = vec![]; if rec { flatten(&ns, &mut out); } else { for n in &ns { out.push(format!("{}:{}", n.path().as_str(), kind_of(n.metadata()))); } } format!("nodes {}", show(out)) } Err(_) => "err".into() } }
                "paths" => { let g = match Group::async_open(astore.clone(), &p).await { Ok(g) => g, Err(_) => return "nogroup".to_string() };
                    let f = |r: Result<Vec<NodePath>, zarrs::node::NodeCreateError>| match r { Ok(v) => paths(v), Err(_) => "err".into() };
                    format!("all={} groups={} arrays={}", f(g.async_child_paths(false).await), f(g.async_child_group_paths(false).await), f(g.async_child_array_paths(false).await)) }
                "objs" => { let g = match Group::async_open(astore.clone(), &p).await { Ok(g) => g, Err(_) => return "nogroup".to_string() };
                    let gs = match g.async_child_groups(false).await { Ok(v) => show(v.iter().map(|x| x.path().as_str().to_string()).collect()), Err(_) => "err".into() };
                    let as_ = match g.async_child_arrays(false).await { Ok(v) => show(v.iter().map(|x| x.path().as_str().to_string()).collect()), Err(_) => "err".into() };
                    format!("groups={} arrays={}", gs, as_) }
                "tree" => match Node::async_open(astore.clone(), &p).await { Ok(n) => { let mut out = vec![format!("{}:{}", n.path().as_str(), kind_of(n.metadata()))]; flatten(n.children(), &mut out); format!("nodes {}", show(out)) } Err(_) => "err".into() },
                _ => { let np = match NodePath::new(&p) { Ok(x) => x, Err(_) => return "err-path".to_string() };
                    let a = zarrs::node::async_node_exists(&astore, &np).await.map(|b| b.to_string()).unwrap_or("err".into());
                    let b = zarrs::node::async_node_exists_listable(&astore, &np).await.map(|b| b.to_string()).unwrap_or("err".into());
                    format!("val {} {}", a, b) }
            }
        })),
        _ => s.clone(),
    };
    if s == a { s } else { format!("MISMATCH sync={} async={}", s, a) }
}

fn c07_box(rng: &mut Rng, ext: &[u64]) -> String {
    let mut s = vec![]; let mut n = vec![];
    for &e in ext { if e == 0 { s.push(0); n.push(0); continue; } let st = rng.below(e); s.push(st); n.push(if rng.chance(1, 14) { 0 } else { rng.range(1, e - st) }); }
    format!("{}+{}", nl(&s), nl(&n))
}
fn rename(op: &str, pairs: &[(&str, &str)]) -> Option<String> {
    for (from, to) in pairs { if let Some(rest) = op.strip_prefix(&format!("op {} ", from)) { return Some(format!("op {} {}", to, rest)); } }
    None
}
/// the verbs added for the asynchronous forms that the plain read/write generators do not produce
fn gen_extra_ops(rng: &mut Rng, cfg: &Cfg, plain_opts: bool, out: &mut Vec<String>) {
    let gs = cfg.grid_shape();
    let chunk: Vec<u64> = gs.iter().map(|&g| rng.below(g.max(1))).collect();
    match rng.below(16) {
        0 => out.push(format!("c07 op enc_chunk c={}", nl(&chunk))),
        1 | 2 => out.push(format!("c07 op enc_chunks box={}", c07_box(rng, &gs))),
        3 => out.push(format!("c07 op enc_chunks box={}+{}", nl(&vec![0; gs.len()]), nl(&gs))),
        12 => out.push(format!("c07 op open_opt v={}", rng.pick(&["default", "v3", "v2"]))),
        13 => { // the write forms without options, where the default options are the options of the case
            let op = gen_write_op(rng, cfg);
            out.push(format!("c07 {}{}", op, if plain_opts && op.starts_with("op store") { " dflt=1" } else { "" }));
        }
        4 | 5 | 14 | 15 => { // typed element / ndarray forms of the reads
            let op = gen_read_op(rng, cfg);
            let pairs: [(&str, &str); 5] = if rng.chance(1, 2) { [("retrieve_chunk", "typed_chunk"), ("retrieve_chunk_if_exists", "typed_chunk_if_exists"), ("retrieve_chunks", "typed_chunks"), ("retrieve_chunk_subset", "typed_chunk_subset"), ("retrieve_array_subset", "typed_subset")] }
                else { [("retrieve_chunk", "nd_chunk"), ("retrieve_chunk_if_exists", "nd_chunk_if_exists"), ("retrieve_chunks", "nd_chunks"), ("retrieve_chunk_subset", "nd_chunk_subset"), ("retrieve_array_subset", "nd_subset")] };
            if let Some(l) = rename(&op, &pairs) { out.push(format!("c07 {}", l)); }
        }
        6 => { // typed element forms of the writes (data types without a typed form answer `untyped` and write nothing)
            let op = gen_write_op(rng, cfg);
            match rename(&op, &[("store_chunk", "tstore_chunk"), ("store_chunks", "tstore_chunks"), ("store_chunk_subset", "tstore_chunk_subset"), ("store_array_subset", "tstore_array_subset")]) {
                Some(l) => out.push(format!("c07 {}", l)), None => out.push(format!("c07 {}", op)) }
        }
        7 => out.push(format!("c07 {} dflt=1", gen_read_op(rng, cfg))),
        8 => { // the metadata document: erased, then stored again (compared byte for byte)
            out.push(format!("c07 op erase_metadata v={}", rng.pick(&["default", "all", "v3", "v2"])));
            out.push(format!("c07 op store_metadata zm={}", rng.below(2)));
        }
        _ => { // partial encoder: 1-3 sub-boxes of one chunk written in one call; sometimes the chunk is erased through it
            if cfg.shape.is_empty() { return; }
            if rng.chance(1, 8) { out.push(format!("c07 op penc_erase c={}", nl(&chunk))); return; }
            let cshape = cfg.chunk_origin_shape(&chunk).1;
            let mut rs = vec![]; let mut ds = vec![];
            for _ in 0..rng.range(1, 3) {
                let mut st = vec![]; let mut n = vec![];
                for &e in &cshape { let a = rng.below(e); st.push(a); n.push(rng.range(1, e - a)); }
                ds.push(gen_data(rng, cfg, n.iter().product()));
                rs.push(format!("{}+{}", nl(&st), nl(&n)));
            }
            out.push(format!("c07 op penc c={} rs={} data={}", nl(&chunk), rs.join("|"), ds.join("|")));
            if rng.chance(1, 2) { out.push(format!("c07 op retrieve_chunk c={}", nl(&chunk))); }
        }
    }
}

pub fn generate(tier: &str, seed: u64) -> Vec<String> {
    let mut rng = Rng::new(seed ^ 0xC07);
    // own stream for what this module adds to the shared generators: latency seeds, concurrency targets, extra verbs
    let mut rx = Rng::new(seed ^ 0xC07_A2);
    let thorough = tier == "thorough";
    let ncfg = if thorough { 4000 } else { 350 };
    let mut out = vec![];
    for k in 0..ncfg {
        let cfg = gen_cfg(&mut rng, if k % 3 == 0 { Some(true) } else { None });
        // partial encoding is a synchronous-only write strategy: the stored bytes may differ, the contents may not
        let penc = k % 5 == 4;
        // three latency flavours per case (plus the immediate one); an explicit concurrency target in most cases (absent = the
        // global default, the number of CPUs)
        let lats: Vec<u64> = (0..3).map(|_| rx.below(100000)).collect();
        let ct = *rx.pick(&[0u64, 1, 2, 3, 4, 8]);
        let extra = format!(" lat={}{}", nl(&lats), if ct == 0 { String::new() } else { format!(" ct={}", ct) });
        let empty = rng.chance(1, 4);
        out.push(cfg.cfg_line("c07", "memory", empty, penc, &extra));
        let nops = if thorough { rng.range(1, 30) } else { rng.range(1, 10) };
        for _ in 0..nops {
            out.push(format!("c07 {}", gen_write_op(&mut rng, &cfg)));
            if rng.chance(1, 2) { out.push(format!("c07 {}", gen_read_op(&mut rng, &cfg))); }
            if rng.chance(1, 4) { out.push("c07 op keys".to_string()); }
            if rng.chance(1, 4) && !cfg.shape.is_empty() {
                // a partial decoder request: 1-3 sub-boxes of one chunk
                let gs = cfg.grid_shape();
                let c: Vec<u64> = gs.iter().map(|&g| rng.below(g.max(1))).collect();
                let cshape = cfg.chunk_origin_shape(&c).1;
                let rs: Vec<String> = (0..rng.range(1, 3)).map(|_| { let mut s = vec![]; let mut n = vec![]; for &e in &cshape { let st = rng.below(e); s.push(st); n.push(rng.range(1, e - st)); } format!("{}+{}", nl(&s), nl(&n)) }).collect();
                out.push(format!("c07 op pdx c={} rs={}{}", nl(&c), rs.join("|"), if rx.chance(1, 4) { " dflt=1" } else { "" }));
            }
            if rx.chance(2, 3) { gen_extra_ops(&mut rx, &cfg, !empty && !penc, &mut out); }
        }
        gen_full_reads(&mut rng, &cfg, &mut out, "c07");
        let gs = cfg.grid_shape();
        out.push(format!("c07 op enc_chunks box={}+{}", nl(&vec![0; gs.len()]), nl(&gs)));
        out.push(format!("c07 op typed_chunks box={}+{}", nl(&vec![0; gs.len()]), nl(&gs)));
        out.push("c07 op store_metadata zm=1".to_string());
        out.push("c07 op keys".to_string());
        out.push("c07 op contents".to_string());
        out.push("c07 op reopen".to_string());
        gen_full_reads(&mut rng, &cfg, &mut out, "c07");
        out.push(format!("c07 op enc_chunks box={}+{}", nl(&vec![0; gs.len()]), nl(&gs)));
    }
    // packbits with a bit range (own stream): whole-array write, then partial reads of every kind through both forms
    {
        let mut rp = Rng::new(seed ^ 0xC07_9B);
        for _ in 0..(if thorough { 150 } else { 15 }) {
            let cfg = crate::arr::gen_packbits_cfg(&mut rp);
            out.push(cfg.cfg_line("c07", "memory", false, false, &format!(" lat={}", rp.below(100000))));
            out.push(format!("c07 op store_array_subset r={}+{} data={}", nl(&vec![0; cfg.shape.len()]), nl(&cfg.shape), gen_data(&mut rp, &cfg, cfg.shape.iter().product())));
            let gs = cfg.grid_shape();
            for _ in 0..6 {
                let c: Vec<u64> = gs.iter().map(|&g| rp.below(g.max(1))).collect();
                let cshape = cfg.chunk_origin_shape(&c).1;
                let rs: Vec<String> = (0..rp.range(1, 3)).map(|_| { let mut s = vec![]; let mut n = vec![]; for &e in &cshape { let st = rp.below(e); s.push(st); n.push(rp.range(1, e - st)); } format!("{}+{}", nl(&s), nl(&n)) }).collect();
                out.push(format!("c07 op pdx c={} rs={}", nl(&c), rs.join("|")));
                out.push(format!("c07 op retrieve_chunk_subset c={} r={}", nl(&c), rs[0]));
                out.push(format!("c07 {}", gen_read_op(&mut rp, &cfg)));
            }
            gen_full_reads(&mut rp, &cfg, &mut out, "c07");
        }
    }
    // (own stream) a shard whose index was altered behind the API: an entry with a wrong size that still lies inside the value
    // (fixed-size inner chain). Whatever the answer of a read is, it must be the same through both forms.
    {
        let mut rc = Rng::new(seed ^ 0xC07_E7);
        let dts = dtypes();
        for _ in 0..(if thorough { 120 } else { 16 }) {
            let dt = dts.iter().filter(|d| d.es.is_some() && d.name != "bool").nth(rc.below(8) as usize).unwrap().clone();
            let es = dt.es.unwrap();
            let (loc, big, icrc) = (if rc.chance(1, 2) { "end" } else { "start" }, rc.chance(1, 2), rc.chance(1, 2));
            let inner = vec![rc.range(1, 2), rc.range(2, 3)];
            let chunk = vec![inner[0] * 2, inner[1] * 2];
            let bytes = if es == 1 { "{\"name\":\"bytes\"}".to_string() } else { "{\"name\":\"bytes\",\"configuration\":{\"endian\":\"little\"}}".to_string() };
            let idx = format!("[{{\"name\":\"bytes\",\"configuration\":{{\"endian\":\"{}\"}}}}{}]", if big { "big" } else { "little" }, if icrc { ",{\"name\":\"crc32c\"}" } else { "" });
            let json = format!("[{{\"name\":\"sharding_indexed\",\"configuration\":{{\"chunk_shape\":[{},{}],\"codecs\":[{}],\"index_codecs\":{},\"index_location\":\"{}\"}}}}]", inner[0], inner[1], bytes, idx, loc);
            let cfg = Cfg { dtype: dt.clone(), fill: dt.fills[0].clone(), shape: chunk.clone(), grid: vec![(true, vec![chunk[0]]), (true, vec![chunk[1]])], regular_impl: true,
                keys: ("default".into(), "/".into()), codecs_json: json, chain_desc: format!("shard[{}x{};{};bytes]", inner[0], inner[1], loc), sharded: true, path: "/ce".into(), eff_inner: Some(inner.clone()) };
            out.push(cfg.cfg_line("c07", "memory", false, false, &format!(" lat={}", rc.below(100000))));
            let total: u64 = chunk.iter().product();
            let xs: Vec<Vec<u8>> = (0..total).map(|q| { let mut e = vec![0u8; es]; e[0] = (q % 250) as u8 + 1; e }).collect();
            out.push(format!("c07 op store_array_subset r=0,0+{} data={}", nl(&chunk), show_elems(&xs)));
            out.push(format!("c07 op corrupt_entry c=0,0 i={} nchunks=4 idx={}:{} icrc={} delta={}", rc.below(4), loc, if big { "big" } else { "little" }, icrc as u8, *rc.pick(&[-1i64, -1, 1, -(es as i64)])));
            for _ in 0..5 {
                let mut st = vec![]; let mut n = vec![];
                for &e in &chunk { let a = rc.below(e); st.push(a); n.push(rc.range(1, e - a)); }
                out.push(format!("c07 op retrieve_chunk_subset c=0,0 r={}+{}", nl(&st), nl(&n)));
                out.push(format!("c07 op pdx c=0,0 rs={}+{}", nl(&st), nl(&n)));
                out.push(format!("c07 op retrieve_array_subset r={}+{}", nl(&st), nl(&n)));
            }
            out.push("c07 op retrieve_chunk c=0,0".into());
        }
    }
    // hierarchies
    let nh = if thorough { 1500 } else { 150 };
    for h in 0..nh {
        // every third hierarchy behind the immediate adapter, the others behind a latency store
        out.push(if h % 3 == 0 { "c07 hcfg lat=-".to_string() } else { format!("c07 hcfg lat={}", rx.below(100000)) });
        let names = ["a", "b", "c", "g1", "zarr", "x.y", "t__2m"];
        let mut paths: Vec<String> = vec!["/".to_string()];
        for _ in 0..rng.range(4, if thorough { 30 } else { 16 }) {
            let sel = rng.below(20);
            let parent = rng.pick(&paths).clone();
            let child = if parent == "/" { format!("/{}", rng.pick(&names)) } else { format!("{}/{}", parent, rng.pick(&names)) };
            match sel {
                0..=5 => { let p = if rng.chance(1, 6) { "/".to_string() } else { child.clone() }; out.push(format!("c07 hop mkgroup p={} v={}", p, if rng.chance(1, 4) { 2 } else { 3 })); if !paths.contains(&p) && p.matches('/').count() < 4 { paths.push(p); } }
                6..=8 => out.push(format!("c07 hop mkarray p={} v={}", child, if rng.chance(1, 4) { 2 } else { 3 })),
                9 => { let p = rng.pick(&paths).clone(); if p != "/" { out.push(format!("c07 hop rmnode p={}", p)); } }
                10 => out.push(format!("c07 hop stray k={}/{}", child.trim_start_matches('/'), rng.pick(&["data.bin", "x/y"]))),
                11 => out.push(format!("c07 hop children p={} rec={}", rng.pick(&paths), rng.below(2))),
                12 => out.push(format!("c07 hop paths p={}", rng.pick(&paths))),
                13 => out.push(format!("c07 hop objs p={}", rng.pick(&paths))),
                14 => out.push(format!("c07 hop exists p={}", if rng.chance(1, 2) { child } else { parent })),
                // the metadata of a node erased through the API of its kind (group or array; `none` where there is no node)
                15 | 16 => {
                    // (own stream) attributes set / cleared on a node and stored, through both forms; then the metadata erased
                    if rx.chance(1, 2) { out.push(format!("c07 hop setattrs p={} n={}", if rx.chance(1, 4) { child.clone() } else { rx.pick(&paths).clone() }, rx.below(3))); }
                    out.push(format!("c07 hop rmmeta p={}", if rng.chance(1, 3) { child } else { rng.pick(&paths).clone() }))
                }
                _ => out.push(format!("c07 hop tree p={}", rng.pick(&paths))),
            }
        }
        for p in &paths { if rx.chance(1, 2) { out.push(format!("c07 hop setattrs p={} n={}", p, rx.below(3))); out.push(format!("c07 hop setattrs p={} n=0", p)); } }
        out.push("c07 hop keys".into());
        for p in &paths { out.push(format!("c07 hop children p={} rec=1", p)); out.push(format!("c07 hop paths p={}", p)); out.push(format!("c07 hop objs p={}", p)); }
        out.push("c07 hop tree p=/".into());
    }
    out
}
