//! C09: ArraySubset algebra and iterators. One stateless case per line.
use crate::util::*;
use rayon::iter::plumbing::{Producer, ProducerCallback};
use rayon::iter::{IndexedParallelIterator, IntoParallelIterator};
use std::collections::BTreeMap;
use std::num::NonZeroU64;
use zarrs::array::{ravel_indices, unravel_index};
use zarrs::array_subset::ArraySubset;

fn subset(m: &BTreeMap<String, String>, ks: &str, kn: &str) -> ArraySubset {
    ArraySubset::new_with_start_shape(pnl(&m[ks]), pnl(&m[kn])).unwrap()
}
fn show_subset(s: &ArraySubset) -> String {
    format!("{}+{}", nl(s.start()), nl(s.shape()))
}

/// split tree in preorder: `L` leaf, `N<k>(l)(r)`; serialised as tokens separated by `.`: `L` or `N<k>`
#[derive(Clone, Debug)]
pub enum Tree {
    Leaf,
    Node(usize, Box<Tree>, Box<Tree>),
}
fn parse_tree(toks: &mut std::slice::Iter<&str>) -> Tree {
    let t = toks.next().unwrap();
    if *t == "L" {
        Tree::Leaf
    } else {
        let k: usize = t[1..].parse().unwrap();
        let l = parse_tree(toks);
        let r = parse_tree(toks);
        Tree::Node(k, Box::new(l), Box::new(r))
    }
}
fn show_tree(t: &Tree, out: &mut Vec<String>) {
    match t {
        Tree::Leaf => out.push("L".into()),
        Tree::Node(k, l, r) => {
            out.push(format!("N{}", k));
            show_tree(l, out);
            show_tree(r, out);
        }
    }
}
fn gen_tree(rng: &mut Rng, n: usize, depth: u32) -> Tree {
    if depth == 0 || rng.chance(1, 4) {
        Tree::Leaf
    } else {
        let k = rng.below(n as u64 + 1) as usize;
        Tree::Node(k, Box::new(gen_tree(rng, k, depth - 1)), Box::new(gen_tree(rng, n - k, depth - 1)))
    }
}

struct SplitCb<'t, F> {
    tree: &'t Tree,
    leaf: F,
}
fn run_tree<P: Producer, F: FnMut(Vec<P::Item>, usize)>(p: P, t: &Tree, leaf: &mut F) {
    match t {
        Tree::Leaf => {
            let it = p.into_iter();
            let l = it.len();
            leaf(it.collect(), l)
        }
        Tree::Node(k, l, r) => {
            let (a, b) = p.split_at(*k);
            run_tree(a, l, leaf);
            run_tree(b, r, leaf);
        }
    }
}
impl<'t, T, F: FnMut(Vec<T>, usize)> ProducerCallback<T> for SplitCb<'t, F> {
    type Output = ();
    fn callback<P: Producer<Item = T>>(mut self, producer: P) {
        run_tree(producer, self.tree, &mut self.leaf)
    }
}

fn drive<T, I: DoubleEndedIterator<Item = T> + ExactSizeIterator>(
    mut it: I,
    dirs: &str,
) -> (Vec<T>, Vec<T>, Vec<T>, Vec<usize>) {
    let mut f = vec![];
    let mut b = vec![];
    let mut lens = vec![it.len()];
    for d in dirs.chars() {
        if d == 'f' {
            if let Some(x) = it.next() { f.push(x) }
        } else if d == 'b' {
            if let Some(x) = it.next_back() { b.push(x) }
        }
        lens.push(it.len());
    }
    let rest: Vec<T> = it.collect();
    (f, b, rest, lens)
}

pub fn exec(line: &str) -> String {
    let (v, m) = parse_line(line);
    let verb = v.get(1).map(|s| s.as_str()).unwrap_or("");
    guarded(|| match verb {
        "unravel" => format!("val {}", nl(&unravel_index(m["n"].parse().unwrap(), &pnl(&m["shape"])))),
        "ravel" => format!("val {}", ravel_indices(&pnl(&m["i"]), &pnl(&m["shape"]))),
        "indices" => {
            let s = subset(&m, "start", "shape");
            let ind = s.indices();
            let (f, b, r, lens) = drive(ind.iter(), &m["dirs"]);
            format!("val f={} b={} r={} lens={} len={}", nll(&f), nll(&b), nll(&r), nl(&lens), ind.len())
        }
        "split" => {
            let s = subset(&m, "start", "shape");
            let toks: Vec<&str> = m["tree"].split('.').collect();
            let tree = parse_tree(&mut toks.iter());
            let ind = s.indices();
            let mut leaves: Vec<String> = vec![];
            let cb = SplitCb { tree: &tree, leaf: |xs: Vec<Vec<u64>>, l: usize| leaves.push(format!("{}#{}", nll(&xs), l)) };
            (&ind).into_par_iter().with_producer(cb);
            format!("val {}", leaves.join("|"))
        }
        "splitchunks" => {
            let s = subset(&m, "start", "shape");
            let cs: Vec<NonZeroU64> = pnl(&m["cs"]).iter().map(|&c| NonZeroU64::new(c).unwrap()).collect();
            let toks: Vec<&str> = m["tree"].split('.').collect();
            let tree = parse_tree(&mut toks.iter());
            let ch = s.chunks(&cs).unwrap();
            let mut leaves: Vec<String> = vec![];
            let cb = SplitCb {
                tree: &tree,
                leaf: |xs: Vec<(Vec<u64>, ArraySubset)>, l: usize| {
                    let ys: Vec<Vec<u64>> = xs.into_iter().map(|x| x.0).collect();
                    leaves.push(format!("{}#{}", nll(&ys), l))
                },
            };
            (&ch).into_par_iter().with_producer(cb);
            format!("val {}", leaves.join("|"))
        }
        "lin" => {
            let s = subset(&m, "start", "shape");
            match s.linearised_indices(&pnl(&m["arr"])) {
                Ok(li) => {
                    let (f, b, r, lens) = drive(li.iter(), &m["dirs"]);
                    format!("val f={} b={} r={} lens={} len={}", nl(&f), nl(&b), nl(&r), nl(&lens), li.len())
                }
                Err(_) => "err".into(),
            }
        }
        "contig" => {
            let s = subset(&m, "start", "shape");
            match s.contiguous_indices(&pnl(&m["arr"])) {
                Ok(ci) => {
                    let (f, b, r, lens) = drive(ci.iter(), &m["dirs"]);
                    format!("val run={} f={} b={} r={} lens={} len={}", ci.contiguous_elements(), nll(&f), nll(&b), nll(&r), nl(&lens), ci.len())
                }
                Err(_) => "err".into(),
            }
        }
        "contiglin" => {
            let s = subset(&m, "start", "shape");
            match s.contiguous_linearised_indices(&pnl(&m["arr"])) {
                Ok(ci) => {
                    let (f, b, r, lens) = drive(ci.iter(), &m["dirs"]);
                    format!("val run={} f={} b={} r={} lens={} len={}", ci.contiguous_elements(), nl(&f), nl(&b), nl(&r), nl(&lens), ci.len())
                }
                Err(_) => "err".into(),
            }
        }
        "byteranges" => {
            let s = subset(&m, "start", "shape");
            match s.byte_ranges(&pnl(&m["arr"]), m["es"].parse().unwrap()) {
                Ok(rs) => {
                    let xs: Vec<String> = rs
                        .iter()
                        .map(|r| match r {
                            zarrs::storage::byte_range::ByteRange::FromStart(o, Some(l)) => format!("{}:{}", o, l),
                            other => format!("?{}", other),
                        })
                        .collect();
                    format!("val {}", if xs.is_empty() { "~".to_string() } else { xs.join(";") })
                }
                Err(_) => "err".into(),
            }
        }
        "extract" => {
            let s = subset(&m, "start", "shape");
            let arr = pnl(&m["arr"]);
            let n: u64 = m["n"].parse().unwrap();
            let els: Vec<u32> = (0..n as u32).collect();
            match s.extract_elements(&els, &arr) {
                Ok(x) => format!("val {}", nl(&x)),
                Err(_) => "err".into(),
            }
        }
        "chunks" => {
            let s = subset(&m, "start", "shape");
            let cs: Vec<NonZeroU64> = pnl(&m["cs"]).iter().map(|&c| NonZeroU64::new(c).unwrap()).collect();
            match s.chunks(&cs) {
                Ok(ch) => {
                    let (f, b, r, lens) = drive(ch.iter(), &m["dirs"]);
                    let sh = |xs: &[(Vec<u64>, ArraySubset)]| {
                        if xs.is_empty() { "~".to_string() } else {
                            xs.iter().map(|(c, s)| format!("{}@{}", nl(c), show_subset(s))).collect::<Vec<_>>().join(";")
                        }
                    };
                    format!("val f={} b={} r={} lens={} len={}", sh(&f), sh(&b), sh(&r), nl(&lens), ch.len())
                }
                Err(_) => "err".into(),
            }
        }
        "overlap" => {
            let a = subset(&m, "astart", "ashape");
            let b = subset(&m, "bstart", "bshape");
            match a.overlap(&b) {
                Ok(o) => format!("val {} empty={}", show_subset(&o), o.is_empty()),
                Err(_) => "err".into(),
            }
        }
        "bound" => {
            let a = subset(&m, "start", "shape");
            match a.bound(&pnl(&m["end"])) {
                Ok(o) => format!("val {}", show_subset(&o)),
                Err(_) => "err".into(),
            }
        }
        "relto" => {
            let a = subset(&m, "start", "shape");
            match a.relative_to(&pnl(&m["o"])) {
                Ok(o) => format!("val {}", show_subset(&o)),
                Err(_) => "err".into(),
            }
        }
        "inbounds" => {
            let a = subset(&m, "astart", "ashape");
            let b = subset(&m, "bstart", "bshape");
            format!("val {}", a.inbounds(&b))
        }
        "inbshape" => {
            let a = subset(&m, "start", "shape");
            format!("val {}", a.inbounds_shape(&pnl(&m["arr"])))
        }
        "contains" => {
            let a = subset(&m, "start", "shape");
            format!("val {}", a.contains(&pnl(&m["i"])))
        }
        "props" => {
            let a = subset(&m, "start", "shape");
            format!(
                "val n={} empty={} endexc={} endinc={} dim={}",
                a.num_elements(),
                a.is_empty(),
                nl(&a.end_exc()),
                a.end_inc().map(|e| nl(&e)).unwrap_or("none".into()),
                a.dimensionality()
            )
        }
        "ctor" => {
            let a = pnl(&m["a"]);
            let b = pnl(&m["b"]);
            let r1 = ArraySubset::new_with_start_end_inc(a.clone(), b.clone()).map(|s| show_subset(&s)).unwrap_or("err".into());
            let r2 = ArraySubset::new_with_start_end_exc(a.clone(), b.clone()).map(|s| show_subset(&s)).unwrap_or("err".into());
            let r3 = ArraySubset::new_with_start_shape(a.clone(), b.clone()).map(|s| show_subset(&s)).unwrap_or("err".into());
            format!("val inc={} exc={} ss={}", r1, r2, r3)
        }
        _ => "bad-op".into(),
    })
}

fn all_shapes(rank: usize, max: u64) -> Vec<Vec<u64>> {
    let mut out = vec![vec![]];
    for _ in 0..rank {
        let mut nxt = vec![];
        for p in &out {
            for e in 0..=max {
                let mut q: Vec<u64> = p.clone();
                q.push(e);
                nxt.push(q);
            }
        }
        out = nxt;
    }
    out
}
fn all_subsets(arr: &[u64], slack: u64) -> Vec<(Vec<u64>, Vec<u64>)> {
    // every (start, shape) with start+shape <= arr + slack in each dimension
    let mut out: Vec<(Vec<u64>, Vec<u64>)> = vec![(vec![], vec![])];
    for &a in arr {
        let mut nxt = vec![];
        for (s, n) in &out {
            for st in 0..=(a + slack) {
                for len in 0..=(a + slack - st) {
                    let mut s2 = s.clone();
                    s2.push(st);
                    let mut n2 = n.clone();
                    n2.push(len);
                    nxt.push((s2, n2));
                }
            }
        }
        out = nxt;
    }
    out
}
fn dirs_patterns(rng: &mut Rng, n: usize) -> Vec<String> {
    let mut v = vec!["".to_string(), "f".repeat(n + 2), "b".repeat(n + 2)];
    let mixed: String = (0..n + 3).map(|_| if rng.chance(1, 2) { 'f' } else { 'b' }).collect();
    v.push(mixed);
    v
}

pub fn generate(tier: &str, seed: u64) -> Vec<String> {
    let mut rng = Rng::new(seed);
    let thorough = tier == "thorough";
    let (max_rank, max_ext) = if thorough { (4usize, 3u64) } else { (3usize, 3u64) };
    let mut out: Vec<String> = vec![];
    for rank in 0..=max_rank {
        let ext = if rank >= 4 { 2 } else if rank == 3 && !thorough { 2 } else { max_ext };
        for arr in all_shapes(rank, ext) {
            let total: u64 = arr.iter().product();
            for n in 0..total.min(40) {
                out.push(format!("c09 unravel n={} shape={}", n, nl(&arr)));
            }
            if arr.iter().all(|&d| d > 0) && rank > 0 {
                // out-of-range linear index: the code wraps the leading digit
                out.push(format!("c09 unravel n={} shape={}", total + rng.below(total + 3), nl(&arr)));
            }
            let subs = all_subsets(&arr, 0);
            for (st, sh) in &subs {
                let n: u64 = sh.iter().product();
                let s = format!("start={} shape={}", nl(st), nl(sh));
                for d in dirs_patterns(&mut rng, n as usize) {
                    out.push(format!("c09 indices {} dirs={}", s, d));
                }
                let mut d2 = dirs_patterns(&mut rng, n as usize);
                out.push(format!("c09 lin {} arr={} dirs={}", s, nl(&arr), d2.pop().unwrap()));
                out.push(format!("c09 lin {} arr={} dirs=", s, nl(&arr)));
                out.push(format!("c09 contig {} arr={} dirs=", s, nl(&arr)));
                out.push(format!("c09 contig {} arr={} dirs={}", s, nl(&arr), d2.pop().unwrap()));
                out.push(format!("c09 contiglin {} arr={} dirs=", s, nl(&arr)));
                for es in [1u64, 3] {
                    out.push(format!("c09 byteranges {} arr={} es={}", s, nl(&arr), es));
                }
                out.push(format!("c09 extract {} arr={} n={}", s, nl(&arr), total));
                out.push(format!("c09 props {}", s));
                out.push(format!("c09 inbshape {} arr={}", s, nl(&arr)));
                // chunk shapes
                let ncs = if rank <= 2 { 3 } else { 2 };
                for _ in 0..ncs {
                    let cs: Vec<u64> = (0..rank).map(|_| rng.range(1, 3)).collect();
                    out.push(format!("c09 chunks {} cs={} dirs=", s, nl(&cs)));
                    if rng.chance(1, 3) {
                        let d = dirs_patterns(&mut rng, 4).pop().unwrap();
                        out.push(format!("c09 chunks {} cs={} dirs={}", s, nl(&cs), d));
                    }
                    if rng.chance(1, 4) {
                        // chunk-count for the tree: compute through the library's own len (tree must fit)
                        let csn: Vec<NonZeroU64> = cs.iter().map(|&c| NonZeroU64::new(c).unwrap()).collect();
                        let sub = ArraySubset::new_with_start_shape(st.clone(), sh.clone()).unwrap();
                        let cl = sub.chunks(&csn).unwrap().len();
                        let t = gen_tree(&mut rng, cl, 3);
                        let mut toks = vec![];
                        show_tree(&t, &mut toks);
                        out.push(format!("c09 splitchunks {} cs={} tree={}", s, nl(&cs), toks.join(".")));
                    }
                }
                // split trees
                for _ in 0..2 {
                    let t = gen_tree(&mut rng, n as usize, 3);
                    let mut toks = vec![];
                    show_tree(&t, &mut toks);
                    out.push(format!("c09 split {} tree={}", s, toks.join(".")));
                }
                // membership
                let i: Vec<u64> = arr.iter().map(|&a| rng.below(a + 2)).collect();
                out.push(format!("c09 contains {} i={}", s, nl(&i)));
                let e: Vec<u64> = arr.iter().map(|&a| rng.below(a + 2)).collect();
                out.push(format!("c09 bound {} end={}", s, nl(&e)));
                let o: Vec<u64> = st.iter().map(|&a| rng.below(a + 1)).collect();
                out.push(format!("c09 relto {} o={}", s, nl(&o)));
            }
            // pairs: exhaustive for rank<=1 (and rank 2 thorough), sampled otherwise
            let exhaustive_pairs = rank <= 1 || (rank == 2 && thorough && total <= 9);
            let npairs = if exhaustive_pairs { 0 } else { (subs.len() * 3).min(600) };
            let mut push_pair = |a: &(Vec<u64>, Vec<u64>), b: &(Vec<u64>, Vec<u64>), out: &mut Vec<String>| {
                let s = format!("astart={} ashape={} bstart={} bshape={}", nl(&a.0), nl(&a.1), nl(&b.0), nl(&b.1));
                out.push(format!("c09 overlap {}", s));
                out.push(format!("c09 inbounds {}", s));
            };
            if exhaustive_pairs {
                for a in &subs {
                    for b in &subs {
                        push_pair(a, b, &mut out);
                    }
                }
            } else {
                for _ in 0..npairs {
                    let a = rng.pick(&subs).clone();
                    let b = rng.pick(&subs).clone();
                    push_pair(&a, &b, &mut out);
                }
            }
        }
    }
    // rank mismatches and constructors (malformed stream, small)
    for _ in 0..60 {
        let ra = rng.below(3) as usize;
        let rb = rng.below(3) as usize;
        let a: Vec<u64> = (0..ra).map(|_| rng.below(4)).collect();
        let b: Vec<u64> = (0..rb).map(|_| rng.below(4)).collect();
        out.push(format!("c09 ctor a={} b={}", nl(&a), nl(&b)));
        let sh: Vec<u64> = (0..ra).map(|_| rng.below(4)).collect();
        out.push(format!("c09 inbshape start={} shape={} arr={}", nl(&a), nl(&sh), nl(&b)));
        out.push(format!("c09 bound start={} shape={} end={}", nl(&a), nl(&sh), nl(&b)));
        out.push(format!("c09 relto start={} shape={} o={}", nl(&a), nl(&sh), nl(&b)));
        out.push(format!("c09 lin start={} shape={} arr={} dirs=", nl(&a), nl(&sh), nl(&b)));
        let shb: Vec<u64> = (0..rb).map(|_| rng.below(4)).collect();
        out.push(format!("c09 overlap astart={} ashape={} bstart={} bshape={}", nl(&a), nl(&sh), nl(&b), nl(&shb)));
        out.push(format!("c09 inbounds astart={} ashape={} bstart={} bshape={}", nl(&a), nl(&sh), nl(&b), nl(&shb)));
    }
    // large extents with small products (near 2^32 / 2^62)
    let bigs: [u64; 5] = [1 << 31, (1 << 32) - 1, 1 << 32, (1 << 32) + 1, 1 << 40];
    for _ in 0..(if thorough { 400 } else { 100 }) {
        let rank = rng.range(1, 3) as usize;
        let arr: Vec<u64> = (0..rank).map(|k| if k == 0 { *rng.pick(&bigs) } else { rng.range(1, 4) }).collect();
        let sh: Vec<u64> = arr.iter().map(|_| rng.range(0, 3)).collect();
        let st: Vec<u64> = arr.iter().zip(&sh).map(|(&a, &n)| { let hi = a - n.min(a); if rng.chance(1, 2) { hi - rng.below(3.min(hi + 1)) } else { rng.below(hi + 1) } }).collect();
        let s = format!("start={} shape={}", nl(&st), nl(&sh));
        out.push(format!("c09 indices {} dirs=", s));
        out.push(format!("c09 lin {} arr={} dirs=", s, nl(&arr)));
        out.push(format!("c09 contiglin {} arr={} dirs=", s, nl(&arr)));
        out.push(format!("c09 byteranges {} arr={} es=8", s, nl(&arr)));
        let cs: Vec<u64> = (0..rank).map(|_| rng.range(1, 3)).collect();
        out.push(format!("c09 chunks {} cs={} dirs=", s, nl(&cs)));
    }
    out
}
