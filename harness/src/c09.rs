//! C09: ArraySubset algebra and iterators. One stateless case per line.
use crate::util::*;
use rayon::iter::plumbing::{Producer, ProducerCallback};
use rayon::iter::{IndexedParallelIterator, IntoParallelIterator, ParallelIterator};
use std::collections::BTreeMap;
use std::num::NonZeroU64;
use std::ops::Bound;
use zarrs::array::{ravel_indices, unravel_index};
use zarrs::array_subset::iterators::{Chunks, ContiguousIndices, ContiguousLinearisedIndices, Indices, LinearisedIndices};
use zarrs::array_subset::ArraySubset;

fn subset(m: &BTreeMap<String, String>, ks: &str, kn: &str) -> ArraySubset {
    ArraySubset::new_with_start_shape(pnl(&m[ks]), pnl(&m[kn])).unwrap()
}
fn show_subset(s: &ArraySubset) -> String {
    format!("{}+{}", nl(s.start()), nl(s.shape()))
}

/// split tree in preorder: `L` leaf, `N<k>(l)(r)`; serialised as tokens separated by `.`: `L` or `N<k>`
#[derive(Clone, Debug)]
pub enum Tree {
    Leaf,
    Node(usize, Box<Tree>, Box<Tree>),
}
fn parse_tree(toks: &mut std::slice::Iter<&str>) -> Tree {
    let t = toks.next().unwrap();
    if *t == "L" {
        Tree::Leaf
    } else {
        let k: usize = t[1..].parse().unwrap();
        let l = parse_tree(toks);
        let r = parse_tree(toks);
        Tree::Node(k, Box::new(l), Box::new(r))
    }
}
fn show_tree(t: &Tree, out: &mut Vec<String>) {
    match t {
        Tree::Leaf => out.push("L".into()),
        Tree::Node(k, l, r) => {
            out.push(format!("N{}", k));
            show_tree(l, out);
            show_tree(r, out);
        }
    }
}
fn gen_tree(rng: &mut Rng, n: usize, depth: u32) -> Tree {
    if depth == 0 || rng.chance(1, 4) {
        Tree::Leaf
    } else {
        let k = rng.below(n as u64 + 1) as usize;
        Tree::Node(k, Box::new(gen_tree(rng, k, depth - 1)), Box::new(gen_tree(rng, n - k, depth - 1)))
    }
}

struct SplitCb<'t, F> {
    tree: &'t Tree,
    leaf: F,
}
fn run_tree<P: Producer, F: FnMut(Vec<P::Item>, usize)>(p: P, t: &Tree, leaf: &mut F) {
    match t {
        Tree::Leaf => {
            let it = p.into_iter();
            let l = it.len();
            leaf(it.collect(), l)
        }
        Tree::Node(k, l, r) => {
            let (a, b) = p.split_at(*k);
            run_tree(a, l, leaf);
            run_tree(b, r, leaf);
        }
    }
}
impl<'t, T, F: FnMut(Vec<T>, usize)> ProducerCallback<T> for SplitCb<'t, F> {
    type Output = ();
    fn callback<P: Producer<Item = T>>(mut self, producer: P) {
        run_tree(producer, self.tree, &mut self.leaf)
    }
}

fn drive<T, I: DoubleEndedIterator<Item = T> + ExactSizeIterator>(
    mut it: I,
    dirs: &str,
) -> (Vec<T>, Vec<T>, Vec<T>, Vec<usize>) {
    let mut f = vec![];
    let mut b = vec![];
    let mut lens = vec![it.len()];
    for d in dirs.chars() {
        if d == 'f' {
            if let Some(x) = it.next() { f.push(x) }
        } else if d == 'b' {
            if let Some(x) = it.next_back() { b.push(x) }
        }
        lens.push(it.len());
    }
    let rest: Vec<T> = it.collect();
    (f, b, rest, lens)
}


/// range bound text: `i<n>` included, `x<n>` excluded, `u` unbounded
fn parse_bound(s: &str) -> Bound<usize> {
    match s.as_bytes()[0] {
        b'i' => Bound::Included(s[1..].parse().unwrap()),
        b'x' => Bound::Excluded(s[1..].parse().unwrap()),
        _ => Bound::Unbounded,
    }
}
/// `Indices::new_with_start_end` through the std range type the bounds spell (`a..b`, `a..=b`, `..`, `a..`, `..b`, `..=b`),
/// a `(Bound, Bound)` pair for an excluded start
fn indices_range(s: ArraySubset, lo: Bound<usize>, hi: Bound<usize>) -> Indices {
    match (lo, hi) {
        (Bound::Included(a), Bound::Excluded(b)) => Indices::new_with_start_end(s, a..b),
        (Bound::Included(a), Bound::Included(b)) => Indices::new_with_start_end(s, a..=b),
        (Bound::Unbounded, Bound::Unbounded) => Indices::new_with_start_end(s, ..),
        (Bound::Included(a), Bound::Unbounded) => Indices::new_with_start_end(s, a..),
        (Bound::Unbounded, Bound::Excluded(b)) => Indices::new_with_start_end(s, ..b),
        (Bound::Unbounded, Bound::Included(b)) => Indices::new_with_start_end(s, ..=b),
        (lo, hi) => Indices::new_with_start_end(s, (lo, hi)),
    }
}
fn show_ranges(rs: &[zarrs::storage::byte_range::ByteRange]) -> String {
    let xs: Vec<String> = rs
        .iter()
        .map(|r| match r {
            zarrs::storage::byte_range::ByteRange::FromStart(o, Some(l)) => format!("{}:{}", o, l),
            other => format!("?{}", other),
        })
        .collect();
    if xs.is_empty() { "~".to_string() } else { xs.join(";") }
}
fn show_chunk_items(xs: &[(Vec<u64>, ArraySubset)]) -> String {
    if xs.is_empty() { "~".to_string() } else {
        xs.iter().map(|(c, s)| format!("{}@{}", nl(c), show_subset(s))).collect::<Vec<_>>().join(";")
    }
}
fn nzs(v: &[u64]) -> Vec<NonZeroU64> {
    v.iter().map(|&c| NonZeroU64::new(c).unwrap()).collect()
}
fn tree_of(m: &BTreeMap<String, String>) -> Tree {
    let toks: Vec<&str> = m["tree"].split('.').collect();
    parse_tree(&mut toks.iter())
}

/// the verbs added by the API-coverage audit: explicit index ranges, the `_unchecked` variants (called only under their
/// documented safety contracts), the remaining constructors/accessors and the type-level iterator constructors
fn exec_api(verb: &str, m: &BTreeMap<String, String>) -> Option<String> {
    Some(match verb {
        "irange" => {
            let s = subset(m, "start", "shape");
            let ind = indices_range(s, parse_bound(&m["lo"]), parse_bound(&m["hi"]));
            let (f, b, r, lens) = drive(ind.iter(), &m["dirs"]);
            let plen = IndexedParallelIterator::len(&(&ind).into_par_iter());
            let olen = (&ind).into_par_iter().opt_len().map(|x| x.to_string()).unwrap_or("none".into());
            let cnt = (&ind).into_iter().count();
            format!("val f={} b={} r={} lens={} len={} empty={} plen={} optlen={} count={}", nll(&f), nll(&b), nll(&r), nl(&lens), ind.len(), ind.is_empty(), plen, olen, cnt)
        }
        "irangesplit" => {
            let s = subset(m, "start", "shape");
            let ind = indices_range(s, parse_bound(&m["lo"]), parse_bound(&m["hi"]));
            let tree = tree_of(m);
            let mut leaves: Vec<String> = vec![];
            let cb = SplitCb { tree: &tree, leaf: |xs: Vec<Vec<u64>>, l: usize| leaves.push(format!("{}#{}", nll(&xs), l)) };
            (&ind).into_par_iter().with_producer(cb);
            format!("val {}", leaves.join("|"))
        }
        "par" => {
            // rayon's own bridge (drive / drive_unindexed, opt_len): ordered collect, unindexed count
            let s = subset(m, "start", "shape");
            let ind = indices_range(s, parse_bound(&m["lo"]), parse_bound(&m["hi"]));
            let xs: Vec<Vec<u64>> = (&ind).into_par_iter().collect();
            let ys: Vec<(usize, Vec<u64>)> = (&ind).into_par_iter().enumerate().filter(|(k, _)| k % 2 == 0).collect();
            let cnt = (&ind).into_par_iter().filter(|_| true).count();
            format!("val {} even={} count={}", nll(&xs), nll(&ys.into_iter().map(|x| x.1).collect::<Vec<_>>()), cnt)
        }
        "parchunks" => {
            let s = subset(m, "start", "shape");
            let ch = s.chunks(&nzs(&pnl(&m["cs"]))).unwrap();
            let xs: Vec<(Vec<u64>, ArraySubset)> = (&ch).into_par_iter().collect();
            let plen = IndexedParallelIterator::len(&(&ch).into_par_iter());
            let olen = (&ch).into_par_iter().opt_len().map(|x| x.to_string()).unwrap_or("none".into());
            let cnt = (&ch).into_par_iter().filter(|_| true).count();
            format!("val {} plen={} optlen={} count={}", show_chunk_items(&xs), plen, olen, cnt)
        }
        "ulin" => {
            let s = subset(m, "start", "shape");
            let li = unsafe { s.linearised_indices_unchecked(&pnl(&m["arr"])) };
            let (f, b, r, lens) = drive(li.iter(), &m["dirs"]);
            format!("val f={} b={} r={} lens={} len={} empty={}", nl(&f), nl(&b), nl(&r), nl(&lens), li.len(), li.is_empty())
        }
        "ucontig" => {
            let s = subset(m, "start", "shape");
            let ci = unsafe { s.contiguous_indices_unchecked(&pnl(&m["arr"])) };
            let it = ci.iter();
            let (ice, iceu) = (it.contiguous_elements(), it.contiguous_elements_usize());
            let (f, b, r, lens) = drive(it, &m["dirs"]);
            format!("val run={} runusize={} itrun={} itrunusize={} f={} b={} r={} lens={} len={} empty={}", ci.contiguous_elements(), ci.contiguous_elements_usize(), ice, iceu, nll(&f), nll(&b), nll(&r), nl(&lens), ci.len(), ci.is_empty())
        }
        "ucontiglin" => {
            let s = subset(m, "start", "shape");
            let ci = unsafe { s.contiguous_linearised_indices_unchecked(&pnl(&m["arr"])) };
            let it = ci.iter();
            let (ice, iceu) = (it.contiguous_elements(), it.contiguous_elements_usize());
            let (f, b, r, lens) = drive(it, &m["dirs"]);
            format!("val run={} runusize={} itrun={} itrunusize={} f={} b={} r={} lens={} len={} empty={}", ci.contiguous_elements(), ci.contiguous_elements_usize(), ice, iceu, nl(&f), nl(&b), nl(&r), nl(&lens), ci.len(), ci.is_empty())
        }
        "ubyteranges" => {
            let s = subset(m, "start", "shape");
            let rs = unsafe { s.byte_ranges_unchecked(&pnl(&m["arr"]), m["es"].parse().unwrap()) };
            format!("val {}", show_ranges(&rs))
        }
        "uextract" => {
            let s = subset(m, "start", "shape");
            let n: u64 = m["n"].parse().unwrap();
            let els: Vec<u32> = (0..n as u32).collect();
            let x = unsafe { s.extract_elements_unchecked(&els, &pnl(&m["arr"])) };
            format!("val {}", nl(&x))
        }
        "uchunks" => {
            let s = subset(m, "start", "shape");
            let ch = unsafe { s.chunks_unchecked(&nzs(&pnl(&m["cs"]))) };
            let (f, b, r, lens) = drive(ch.iter(), &m["dirs"]);
            format!("val f={} b={} r={} lens={} len={} empty={}", show_chunk_items(&f), show_chunk_items(&b), show_chunk_items(&r), nl(&lens), ch.len(), ch.is_empty())
        }
        "uoverlap" => {
            let a = subset(m, "astart", "ashape");
            let b = subset(m, "bstart", "bshape");
            let o = unsafe { a.overlap_unchecked(&b) };
            format!("val {} empty={}", show_subset(&o), o.is_empty())
        }
        "ubound" => {
            let a = subset(m, "start", "shape");
            format!("val {}", show_subset(&unsafe { a.bound_unchecked(&pnl(&m["end"])) }))
        }
        "urelto" => {
            let a = subset(m, "start", "shape");
            format!("val {}", show_subset(&unsafe { a.relative_to_unchecked(&pnl(&m["o"])) }))
        }
        "uctor" => {
            let a = pnl(&m["a"]);
            let b = pnl(&m["b"]);
            let r1 = unsafe { ArraySubset::new_with_start_end_inc_unchecked(a.clone(), b.clone()) };
            let r2 = unsafe { ArraySubset::new_with_start_end_exc_unchecked(a.clone(), b.clone()) };
            let r3 = unsafe { ArraySubset::new_with_start_shape_unchecked(a.clone(), b.clone()) };
            format!("val inc={} exc={} ss={}", show_subset(&r1), show_subset(&r2), show_subset(&r3))
        }
        "misc" => {
            // to_ranges / new_with_ranges / shape_usize / num_elements_usize / Display / new_with_shape / new_empty
            let a = subset(m, "start", "shape");
            let rs = a.to_ranges();
            let rt = ArraySubset::new_with_ranges(&rs);
            let rtxt = if rs.is_empty() { "~".to_string() } else { rs.iter().map(|r| format!("{}..{}", r.start, r.end)).collect::<Vec<_>>().join(";") };
            format!(
                "val ranges={} viaranges={} usize={} nusize={} withshape={} newempty={} disp={}",
                rtxt,
                show_subset(&rt),
                nl(&a.shape_usize()),
                a.num_elements_usize(),
                show_subset(&ArraySubset::new_with_shape(a.shape().to_vec())),
                show_subset(&ArraySubset::new_empty(a.dimensionality())),
                a
            )
        }
        "iters" => {
            // the iterator types' own constructors (checked and, for an encapsulating array shape, unchecked), `len`,
            // `is_empty`, `IntoIterator for &T`
            let s = subset(m, "start", "shape");
            let arr = pnl(&m["arr"]);
            let cs = pnl(&m["cs"]);
            let ind = Indices::new(s.clone());
            let a = format!("{}/{}/{}", ind.len(), ind.is_empty(), nll(&(&ind).into_iter().collect::<Vec<_>>()));
            let b = match LinearisedIndices::new(s.clone(), arr.clone()) {
                Ok(x) => format!("{}/{}/{}", x.len(), x.is_empty(), nl(&(&x).into_iter().collect::<Vec<_>>())),
                Err(_) => "err".into(),
            };
            let c = match ContiguousIndices::new(&s, &arr) {
                Ok(x) => format!("{}/{}/{}/{}", x.len(), x.is_empty(), x.contiguous_elements_usize(), nll(&(&x).into_iter().collect::<Vec<_>>())),
                Err(_) => "err".into(),
            };
            let d = match ContiguousLinearisedIndices::new(&s, arr.clone()) {
                Ok(x) => format!("{}/{}/{}/{}", x.len(), x.is_empty(), x.contiguous_elements_usize(), nl(&(&x).into_iter().collect::<Vec<_>>())),
                Err(_) => "err".into(),
            };
            let e = match Chunks::new(&s, &nzs(&cs)) {
                Ok(x) => format!("{}/{}/{}", x.len(), x.is_empty(), show_chunk_items(&(&x).into_iter().collect::<Vec<_>>())),
                Err(_) => "err".into(),
            };
            let u = if s.inbounds_shape(&arr) && cs.len() == s.dimensionality() {
                let x1 = unsafe { LinearisedIndices::new_unchecked(s.clone(), arr.clone()) };
                let x2 = unsafe { ContiguousIndices::new_unchecked(&s, &arr) };
                let x3 = unsafe { ContiguousLinearisedIndices::new_unchecked(&s, arr.clone()) };
                let x4 = unsafe { Chunks::new_unchecked(&s, &nzs(&cs)) };
                format!(
                    "{}/{}/{}/{}",
                    nl(&x1.iter().collect::<Vec<_>>()),
                    nll(&x2.iter().collect::<Vec<_>>()),
                    nl(&x3.iter().collect::<Vec<_>>()),
                    show_chunk_items(&x4.iter().collect::<Vec<_>>())
                )
            } else { "skip".into() };
            format!("val ind={} lin={} contig={} contiglin={} chunks={} unchecked={}", a, b, c, d, e, u)
        }
        _ => return None,
    })
}

pub fn exec(line: &str) -> String {
    let (v, m) = parse_line(line);
    let verb = v.get(1).map(|s| s.as_str()).unwrap_or("");
    guarded(|| match verb {
        "unravel" => format!("val {}", nl(&unravel_index(m["n"].parse().unwrap(), &pnl(&m["shape"])))),
        "ravel" => format!("val {}", ravel_indices(&pnl(&m["i"]), &pnl(&m["shape"]))),
        "indices" => {
            let s = subset(&m, "start", "shape");
            let ind = s.indices();
            let (f, b, r, lens) = drive(ind.iter(), &m["dirs"]);
            format!("val f={} b={} r={} lens={} len={}", nll(&f), nll(&b), nll(&r), nl(&lens), ind.len())
        }
        "split" => {
            let s = subset(&m, "start", "shape");
            let toks: Vec<&str> = m["tree"].split('.').collect();
            let tree = parse_tree(&mut toks.iter());
            let ind = s.indices();
            let mut leaves: Vec<String> = vec![];
            let cb = SplitCb { tree: &tree, leaf: |xs: Vec<Vec<u64>>, l: usize| leaves.push(format!("{}#{}", nll(&xs), l)) };
            (&ind).into_par_iter().with_producer(cb);
            format!("val {}", leaves.join("|"))
        }
        "splitchunks" => {
            let s = subset(&m, "start", "shape");
            let cs: Vec<NonZeroU64> = pnl(&m["cs"]).iter().map(|&c| NonZeroU64::new(c).unwrap()).collect();
            let toks: Vec<&str> = m["tree"].split('.').collect();
            let tree = parse_tree(&mut toks.iter());
            let ch = s.chunks(&cs).unwrap();
            let mut leaves: Vec<String> = vec![];
            let cb = SplitCb {
                tree: &tree,
                leaf: |xs: Vec<(Vec<u64>, ArraySubset)>, l: usize| {
                    let ys: Vec<Vec<u64>> = xs.into_iter().map(|x| x.0).collect();
                    leaves.push(format!("{}#{}", nll(&ys), l))
                },
            };
            (&ch).into_par_iter().with_producer(cb);
            format!("val {}", leaves.join("|"))
        }
        "lin" => {
            let s = subset(&m, "start", "shape");
            match s.linearised_indices(&pnl(&m["arr"])) {
                Ok(li) => {
                    let (f, b, r, lens) = drive(li.iter(), &m["dirs"]);
                    format!("val f={} b={} r={} lens={} len={}", nl(&f), nl(&b), nl(&r), nl(&lens), li.len())
                }
                Err(_) => "err".into(),
            }
        }
        "contig" => {
            let s = subset(&m, "start", "shape");
            match s.contiguous_indices(&pnl(&m["arr"])) {
                Ok(ci) => {
                    let (f, b, r, lens) = drive(ci.iter(), &m["dirs"]);
                    format!("val run={} f={} b={} r={} lens={} len={}", ci.contiguous_elements(), nll(&f), nll(&b), nll(&r), nl(&lens), ci.len())
                }
                Err(_) => "err".into(),
            }
        }
        "contiglin" => {
            let s = subset(&m, "start", "shape");
            match s.contiguous_linearised_indices(&pnl(&m["arr"])) {
                Ok(ci) => {
                    let (f, b, r, lens) = drive(ci.iter(), &m["dirs"]);
                    format!("val run={} f={} b={} r={} lens={} len={}", ci.contiguous_elements(), nl(&f), nl(&b), nl(&r), nl(&lens), ci.len())
                }
                Err(_) => "err".into(),
            }
        }
        "byteranges" => {
            let s = subset(&m, "start", "shape");
            match s.byte_ranges(&pnl(&m["arr"]), m["es"].parse().unwrap()) {
                Ok(rs) => {
                    let xs: Vec<String> = rs
                        .iter()
                        .map(|r| match r {
                            zarrs::storage::byte_range::ByteRange::FromStart(o, Some(l)) => format!("{}:{}", o, l),
                            other => format!("?{}", other),
                        })
                        .collect();
                    format!("val {}", if xs.is_empty() { "~".to_string() } else { xs.join(";") })
                }
                Err(_) => "err".into(),
            }
        }
        "extract" => {
            let s = subset(&m, "start", "shape");
            let arr = pnl(&m["arr"]);
            let n: u64 = m["n"].parse().unwrap();
            let els: Vec<u32> = (0..n as u32).collect();
            match s.extract_elements(&els, &arr) {
                Ok(x) => format!("val {}", nl(&x)),
                Err(_) => "err".into(),
            }
        }
        "chunks" => {
            let s = subset(&m, "start", "shape");
            let cs: Vec<NonZeroU64> = pnl(&m["cs"]).iter().map(|&c| NonZeroU64::new(c).unwrap()).collect();
            match s.chunks(&cs) {
                Ok(ch) => {
                    let (f, b, r, lens) = drive(ch.iter(), &m["dirs"]);
                    let sh = |xs: &[(Vec<u64>, ArraySubset)]| {
                        if xs.is_empty() { "~".to_string() } else {
                            xs.iter().map(|(c, s)| format!("{}@{}", nl(c), show_subset(s))).collect::<Vec<_>>().join(";")
                        }
                    };
                    format!("val f={} b={} r={} lens={} len={}", sh(&f), sh(&b), sh(&r), nl(&lens), ch.len())
                }
                Err(_) => "err".into(),
            }
        }
        "overlap" => {
            let a = subset(&m, "astart", "ashape");
            let b = subset(&m, "bstart", "bshape");
            match a.overlap(&b) {
                Ok(o) => format!("val {} empty={}", show_subset(&o), o.is_empty()),
                Err(_) => "err".into(),
            }
        }
        "bound" => {
            let a = subset(&m, "start", "shape");
            match a.bound(&pnl(&m["end"])) {
                Ok(o) => format!("val {}", show_subset(&o)),
                Err(_) => "err".into(),
            }
        }
        "relto" => {
            let a = subset(&m, "start", "shape");
            match a.relative_to(&pnl(&m["o"])) {
                Ok(o) => format!("val {}", show_subset(&o)),
                Err(_) => "err".into(),
            }
        }
        "inbounds" => {
            let a = subset(&m, "astart", "ashape");
            let b = subset(&m, "bstart", "bshape");
            format!("val {}", a.inbounds(&b))
        }
        "inbshape" => {
            let a = subset(&m, "start", "shape");
            format!("val {}", a.inbounds_shape(&pnl(&m["arr"])))
        }
        "contains" => {
            let a = subset(&m, "start", "shape");
            format!("val {}", a.contains(&pnl(&m["i"])))
        }
        "props" => {
            let a = subset(&m, "start", "shape");
            format!(
                "val n={} empty={} endexc={} endinc={} dim={}",
                a.num_elements(),
                a.is_empty(),
                nl(&a.end_exc()),
                a.end_inc().map(|e| nl(&e)).unwrap_or("none".into()),
                a.dimensionality()
            )
        }
        "ctor" => {
            let a = pnl(&m["a"]);
            let b = pnl(&m["b"]);
            let r1 = ArraySubset::new_with_start_end_inc(a.clone(), b.clone()).map(|s| show_subset(&s)).unwrap_or("err".into());
            let r2 = ArraySubset::new_with_start_end_exc(a.clone(), b.clone()).map(|s| show_subset(&s)).unwrap_or("err".into());
            let r3 = ArraySubset::new_with_start_shape(a.clone(), b.clone()).map(|s| show_subset(&s)).unwrap_or("err".into());
            format!("val inc={} exc={} ss={}", r1, r2, r3)
        }
        other => exec_api(other, &m).unwrap_or("bad-op".into()),
    })
}

fn all_shapes(rank: usize, max: u64) -> Vec<Vec<u64>> {
    let mut out = vec![vec![]];
    for _ in 0..rank {
        let mut nxt = vec![];
        for p in &out {
            for e in 0..=max {
                let mut q: Vec<u64> = p.clone();
                q.push(e);
                nxt.push(q);
            }
        }
        out = nxt;
    }
    out
}
fn all_subsets(arr: &[u64], slack: u64) -> Vec<(Vec<u64>, Vec<u64>)> {
    // every (start, shape) with start+shape <= arr + slack in each dimension
    let mut out: Vec<(Vec<u64>, Vec<u64>)> = vec![(vec![], vec![])];
    for &a in arr {
        let mut nxt = vec![];
        for (s, n) in &out {
            for st in 0..=(a + slack) {
                for len in 0..=(a + slack - st) {
                    let mut s2 = s.clone();
                    s2.push(st);
                    let mut n2 = n.clone();
                    n2.push(len);
                    nxt.push((s2, n2));
                }
            }
        }
        out = nxt;
    }
    out
}
fn dirs_patterns(rng: &mut Rng, n: usize) -> Vec<String> {
    let mut v = vec!["".to_string(), "f".repeat(n + 2), "b".repeat(n + 2)];
    let mixed: String = (0..n + 3).map(|_| if rng.chance(1, 2) { 'f' } else { 'b' }).collect();
    v.push(mixed);
    v
}

/// all range bounds over `0..=top` plus the extreme `usize::MAX`
fn bound_texts(kind: char, top: usize) -> Vec<String> {
    let mut v: Vec<String> = (0..=top).map(|k| format!("{}{}", kind, k)).collect();
    v.push(format!("{}{}", kind, usize::MAX));
    v
}
/// the additions of the API-coverage audit for one in-bounds subset
fn gen_api_subset(out: &mut Vec<String>, rng: &mut Rng, st: &[u64], sh: &[u64], arr: &[u64], s: &str) {
    let rank = arr.len();
    let n: usize = sh.iter().product::<u64>() as usize;
    let total: u64 = arr.iter().product();
    // explicit index ranges: exhaustive over all start/end bounds up to len+2 (included, excluded, unbounded) for small
    // subsets, sampled with the boundary values otherwise
    let mut los: Vec<String> = vec!["u".into()];
    let mut his: Vec<String> = vec!["u".into()];
    if rank <= 2 && n <= 6 {
        for k in ['i', 'x'] { los.extend(bound_texts(k, n + 2)); his.extend(bound_texts(k, n + 2)); }
    } else {
        let pts = [0usize, 1, n / 2, n.saturating_sub(1), n, n + 1, n + 2, usize::MAX];
        for _ in 0..5 {
            los.push(format!("{}{}", if rng.chance(3, 4) { 'i' } else { 'x' }, rng.pick(&pts)));
            his.push(format!("{}{}", if rng.chance(1, 2) { 'i' } else { 'x' }, rng.pick(&pts)));
        }
        his.push(format!("i{}", n));
        his.push(format!("i{}", n + 1));
        his.push(format!("x{}", n + 1));
    }
    for lo in &los {
        for hi in &his {
            let d = if rng.chance(1, 5) { dirs_patterns(rng, n.min(6)).pop().unwrap() } else { String::new() };
            out.push(format!("c09 irange {} lo={} hi={} dirs={}", s, lo, hi, d));
        }
    }
    for _ in 0..3 {
        let (lo, hi) = (rng.pick(&los).clone(), rng.pick(&his).clone());
        let sub = ArraySubset::new_with_start_shape(st.to_vec(), sh.to_vec()).unwrap();
        let len = indices_range(sub, parse_bound(&lo), parse_bound(&hi)).len();
        let t = gen_tree(rng, len.min(64), 3);
        let mut toks = vec![];
        show_tree(&t, &mut toks);
        out.push(format!("c09 irangesplit {} lo={} hi={} tree={}", s, lo, hi, toks.join(".")));
        if rng.chance(1, 3) { out.push(format!("c09 par {} lo={} hi={}", s, lo, hi)); }
    }
    out.push(format!("c09 par {} lo=u hi=u", s));
    // the `_unchecked` variants under their contracts (the subset is inside `arr`)
    let mut d2 = dirs_patterns(rng, n);
    out.push(format!("c09 ulin {} arr={} dirs={}", s, nl(arr), d2.pop().unwrap()));
    out.push(format!("c09 ulin {} arr={} dirs=", s, nl(arr)));
    out.push(format!("c09 ucontig {} arr={} dirs=", s, nl(arr)));
    out.push(format!("c09 ucontig {} arr={} dirs={}", s, nl(arr), d2.pop().unwrap()));
    out.push(format!("c09 ucontiglin {} arr={} dirs=", s, nl(arr)));
    for es in [1u64, 3] {
        out.push(format!("c09 ubyteranges {} arr={} es={}", s, nl(arr), es));
    }
    out.push(format!("c09 uextract {} arr={} n={}", s, nl(arr), total));
    out.push(format!("c09 misc {}", s));
    let cs: Vec<u64> = (0..rank).map(|_| rng.range(1, 3)).collect();
    out.push(format!("c09 iters {} arr={} cs={}", s, nl(arr), nl(&cs)));
}

pub fn generate(tier: &str, seed: u64) -> Vec<String> {
    let mut rng = Rng::new(seed);
    let thorough = tier == "thorough";
    let (max_rank, max_ext) = if thorough { (4usize, 3u64) } else { (3usize, 3u64) };
    let mut out: Vec<String> = vec![];
    for rank in 0..=max_rank {
        let ext = if rank >= 4 { 2 } else if rank == 3 && !thorough { 2 } else { max_ext };
        for arr in all_shapes(rank, ext) {
            let total: u64 = arr.iter().product();
            for n in 0..total.min(40) {
                out.push(format!("c09 unravel n={} shape={}", n, nl(&arr)));
            }
            if arr.iter().all(|&d| d > 0) && rank > 0 {
                // out-of-range linear index: the code wraps the leading digit
                out.push(format!("c09 unravel n={} shape={}", total + rng.below(total + 3), nl(&arr)));
            }
            // `ravel_indices` directly: every in-bounds index, and two with components beyond the extents (same rank)
            if total <= 40 {
                for (i, _) in all_subsets(&arr, 0).iter().filter(|(_, n)| n.iter().all(|&x| x == 1)) {
                    out.push(format!("c09 ravel i={} shape={}", nl(i), nl(&arr)));
                }
            }
            for _ in 0..2 {
                let i: Vec<u64> = arr.iter().map(|&a| rng.below(a + 3)).collect();
                out.push(format!("c09 ravel i={} shape={}", nl(&i), nl(&arr)));
            }
            // `byte_ranges_unchecked` asks only for matching ranks: subsets sticking out of the array by one
            if rank <= 2 {
                for (st, sh) in all_subsets(&arr, 1) {
                    if st.iter().zip(&sh).zip(&arr).all(|((s, n), a)| s + n <= *a) { continue; }
                    out.push(format!("c09 ubyteranges start={} shape={} arr={} es=2", nl(&st), nl(&sh), nl(&arr)));
                }
            }
            let subs = all_subsets(&arr, 0);
            for (st, sh) in &subs {
                let n: u64 = sh.iter().product();
                let s = format!("start={} shape={}", nl(st), nl(sh));
                for d in dirs_patterns(&mut rng, n as usize) {
                    out.push(format!("c09 indices {} dirs={}", s, d));
                }
                let mut d2 = dirs_patterns(&mut rng, n as usize);
                out.push(format!("c09 lin {} arr={} dirs={}", s, nl(&arr), d2.pop().unwrap()));
                out.push(format!("c09 lin {} arr={} dirs=", s, nl(&arr)));
                out.push(format!("c09 contig {} arr={} dirs=", s, nl(&arr)));
                out.push(format!("c09 contig {} arr={} dirs={}", s, nl(&arr), d2.pop().unwrap()));
                out.push(format!("c09 contiglin {} arr={} dirs=", s, nl(&arr)));
                for es in [1u64, 3] {
                    out.push(format!("c09 byteranges {} arr={} es={}", s, nl(&arr), es));
                }
                out.push(format!("c09 extract {} arr={} n={}", s, nl(&arr), total));
                gen_api_subset(&mut out, &mut rng, st, sh, &arr, &s);
                out.push(format!("c09 props {}", s));
                out.push(format!("c09 inbshape {} arr={}", s, nl(&arr)));
                // chunk shapes
                let ncs = if rank <= 2 { 3 } else { 2 };
                for _ in 0..ncs {
                    let cs: Vec<u64> = (0..rank).map(|_| rng.range(1, 3)).collect();
                    out.push(format!("c09 chunks {} cs={} dirs=", s, nl(&cs)));
                    out.push(format!("c09 uchunks {} cs={} dirs={}", s, nl(&cs), if rng.chance(1, 3) { dirs_patterns(&mut rng, 4).pop().unwrap() } else { String::new() }));
                    if rng.chance(1, 6) { out.push(format!("c09 parchunks {} cs={}", s, nl(&cs))); }
                    if rng.chance(1, 3) {
                        let d = dirs_patterns(&mut rng, 4).pop().unwrap();
                        out.push(format!("c09 chunks {} cs={} dirs={}", s, nl(&cs), d));
                    }
                    if rng.chance(1, 4) {
                        // chunk-count for the tree: compute through the library's own len (tree must fit)
                        let csn: Vec<NonZeroU64> = cs.iter().map(|&c| NonZeroU64::new(c).unwrap()).collect();
                        let sub = ArraySubset::new_with_start_shape(st.clone(), sh.clone()).unwrap();
                        let cl = sub.chunks(&csn).unwrap().len();
                        let t = gen_tree(&mut rng, cl, 3);
                        let mut toks = vec![];
                        show_tree(&t, &mut toks);
                        out.push(format!("c09 splitchunks {} cs={} tree={}", s, nl(&cs), toks.join(".")));
                    }
                }
                // split trees
                for _ in 0..2 {
                    let t = gen_tree(&mut rng, n as usize, 3);
                    let mut toks = vec![];
                    show_tree(&t, &mut toks);
                    out.push(format!("c09 split {} tree={}", s, toks.join(".")));
                }
                // membership
                let i: Vec<u64> = arr.iter().map(|&a| rng.below(a + 2)).collect();
                out.push(format!("c09 contains {} i={}", s, nl(&i)));
                let e: Vec<u64> = arr.iter().map(|&a| rng.below(a + 2)).collect();
                out.push(format!("c09 bound {} end={}", s, nl(&e)));
                out.push(format!("c09 ubound {} end={}", s, nl(&e)));
                let o: Vec<u64> = st.iter().map(|&a| rng.below(a + 1)).collect();
                out.push(format!("c09 relto {} o={}", s, nl(&o)));
                out.push(format!("c09 urelto {} o={}", s, nl(&o)));
            }
            // pairs: exhaustive for rank<=1 (and rank 2 thorough), sampled otherwise
            let exhaustive_pairs = rank <= 1 || (rank == 2 && thorough && total <= 9);
            let npairs = if exhaustive_pairs { 0 } else { (subs.len() * 3).min(600) };
            let mut push_pair = |a: &(Vec<u64>, Vec<u64>), b: &(Vec<u64>, Vec<u64>), out: &mut Vec<String>| {
                let s = format!("astart={} ashape={} bstart={} bshape={}", nl(&a.0), nl(&a.1), nl(&b.0), nl(&b.1));
                out.push(format!("c09 overlap {}", s));
                out.push(format!("c09 uoverlap {}", s));
                out.push(format!("c09 inbounds {}", s));
            };
            if exhaustive_pairs {
                for a in &subs {
                    for b in &subs {
                        push_pair(a, b, &mut out);
                    }
                }
            } else {
                for _ in 0..npairs {
                    let a = rng.pick(&subs).clone();
                    let b = rng.pick(&subs).clone();
                    push_pair(&a, &b, &mut out);
                }
            }
        }
    }
    // rank mismatches and constructors (malformed stream, small)
    for _ in 0..60 {
        let ra = rng.below(3) as usize;
        let rb = rng.below(3) as usize;
        let a: Vec<u64> = (0..ra).map(|_| rng.below(4)).collect();
        let b: Vec<u64> = (0..rb).map(|_| rng.below(4)).collect();
        out.push(format!("c09 ctor a={} b={}", nl(&a), nl(&b)));
        // the unchecked constructors ask for equal lengths only (an end below the start saturates)
        let b2: Vec<u64> = (0..ra).map(|_| rng.below(4)).collect();
        out.push(format!("c09 uctor a={} b={}", nl(&a), nl(&b2)));
        out.push(format!("c09 ctor a={} b={}", nl(&a), nl(&b2)));
        let sh: Vec<u64> = (0..ra).map(|_| rng.below(4)).collect();
        let csm: Vec<u64> = (0..rng.below(3)).map(|_| rng.range(1, 3)).collect();
        out.push(format!("c09 iters start={} shape={} arr={} cs={}", nl(&a), nl(&sh), nl(&b), nl(&csm)));
        out.push(format!("c09 contig start={} shape={} arr={} dirs=", nl(&a), nl(&sh), nl(&b)));
        out.push(format!("c09 contiglin start={} shape={} arr={} dirs=", nl(&a), nl(&sh), nl(&b)));
        out.push(format!("c09 byteranges start={} shape={} arr={} es=2", nl(&a), nl(&sh), nl(&b)));
        out.push(format!("c09 extract start={} shape={} arr={} n={}", nl(&a), nl(&sh), nl(&b), b.iter().product::<u64>() + rng.below(2)));
        out.push(format!("c09 chunks start={} shape={} cs={} dirs=", nl(&a), nl(&sh), nl(&csm)));
        out.push(format!("c09 inbshape start={} shape={} arr={}", nl(&a), nl(&sh), nl(&b)));
        out.push(format!("c09 bound start={} shape={} end={}", nl(&a), nl(&sh), nl(&b)));
        out.push(format!("c09 relto start={} shape={} o={}", nl(&a), nl(&sh), nl(&b)));
        out.push(format!("c09 lin start={} shape={} arr={} dirs=", nl(&a), nl(&sh), nl(&b)));
        let shb: Vec<u64> = (0..rb).map(|_| rng.below(4)).collect();
        out.push(format!("c09 overlap astart={} ashape={} bstart={} bshape={}", nl(&a), nl(&sh), nl(&b), nl(&shb)));
        out.push(format!("c09 inbounds astart={} ashape={} bstart={} bshape={}", nl(&a), nl(&sh), nl(&b), nl(&shb)));
    }
    // large extents with small products (near 2^32 / 2^62)
    let bigs: [u64; 5] = [1 << 31, (1 << 32) - 1, 1 << 32, (1 << 32) + 1, 1 << 40];
    for _ in 0..(if thorough { 400 } else { 100 }) {
        let rank = rng.range(1, 3) as usize;
        let arr: Vec<u64> = (0..rank).map(|k| if k == 0 { *rng.pick(&bigs) } else { rng.range(1, 4) }).collect();
        let sh: Vec<u64> = arr.iter().map(|_| rng.range(0, 3)).collect();
        let st: Vec<u64> = arr.iter().zip(&sh).map(|(&a, &n)| { let hi = a - n.min(a); if rng.chance(1, 2) { hi - rng.below(3.min(hi + 1)) } else { rng.below(hi + 1) } }).collect();
        let s = format!("start={} shape={}", nl(&st), nl(&sh));
        out.push(format!("c09 indices {} dirs=", s));
        out.push(format!("c09 lin {} arr={} dirs=", s, nl(&arr)));
        out.push(format!("c09 contiglin {} arr={} dirs=", s, nl(&arr)));
        out.push(format!("c09 byteranges {} arr={} es=8", s, nl(&arr)));
        let cs: Vec<u64> = (0..rank).map(|_| rng.range(1, 3)).collect();
        out.push(format!("c09 chunks {} cs={} dirs=", s, nl(&cs)));
    }
    out
}
