//! C18: replay of model schedules on the real stores through the yield hooks (H1/H2).
//! `c18 sched store=<mem|fs> init=<none|hex> progs=<t0 ops|t1 ops|..> sched=<tids>`
//! Each granted permit lets one thread run from its current yield point to the next one (= one model step).
use crate::hooks::sched;
use crate::util::*;
use std::collections::BTreeMap;
use std::sync::Arc;
use std::time::{Duration, Instant};
use zarrs::storage::byte_range::ByteRange;
use zarrs::storage::store::MemoryStore;
use zarrs::storage::{ReadableStorageTraits, ReadableWritableStorageTraits, StoreKey, StoreKeyOffsetValue, WritableStorageTraits};

fn run_op(store: &dyn ReadableWritableStorageTraits, key: &StoreKey, op: &str) -> String {
    let parts: Vec<&str> = op.split(':').collect();
    match parts[0] {
        "set" => match store.set(key, unhex(parts[1]).into()) { Ok(()) => "ok".into(), Err(_) => "err".into() },
        "setp" => {
            let v = unhex(parts[2]);
            match store.set_partial_values(&[StoreKeyOffsetValue::new(key.clone(), parts[1].parse().unwrap(), &v)]) { Ok(()) => "ok".into(), Err(_) => "err".into() }
        }
        "get" => match store.get(key) { Ok(Some(b)) => format!("some:{}", hex(&b)), Ok(None) => "none".into(), Err(_) => "err".into() },
        "getr" => match store.get_partial_values_key(key, &[ByteRange::FromStart(parts[1].parse().unwrap(), Some(parts[2].parse().unwrap()))]) {
            Ok(Some(b)) => format!("some:{}", hex(&b[0])), Ok(None) => "none".into(), Err(_) => "err".into() },
        "size" => match store.size_key(key) { Ok(Some(n)) => format!("len:{}", n), Ok(None) => "none".into(), Err(_) => "err".into() },
        "erase" => match store.erase(key) { Ok(()) => "ok".into(), Err(_) => "err".into() },
        _ => "bad".into(),
    }
}

pub fn exec(line: &str) -> String {
    let (_, m) = parse_line(line);
    let progs: Vec<Vec<String>> = m["progs"].split('|').map(|p| p.split(',').map(|s| s.to_string()).collect()).collect();
    let schedule: Vec<usize> = if m["sched"] == "-" { vec![] } else { m["sched"].split(',').map(|x| x.parse().unwrap()).collect() };
    let key = StoreKey::new("a/k").unwrap();
    let mut dir = None;
    let store: Arc<dyn ReadableWritableStorageTraits> = match m["store"].as_str() {
        "mem" => Arc::new(MemoryStore::new()),
        _ => { let d = crate::c08::scratch_dir("c18"); dir = Some(d.clone()); Arc::new(zarrs_filesystem::FilesystemStore::new(&d).unwrap()) }
    };
    if m["init"] != "none" { store.set(&key, unhex(&m["init"]).into()).unwrap(); }
    let s = sched();
    {
        let mut g = s.inner.lock().unwrap();
        g.active = true; g.tids.clear(); g.parked.clear(); g.permit = None;
    }
    let n = progs.len();
    let results: Arc<std::sync::Mutex<Vec<Vec<String>>>> = Arc::new(std::sync::Mutex::new(vec![vec![]; n]));
    let done: Arc<std::sync::Mutex<Vec<bool>>> = Arc::new(std::sync::Mutex::new(vec![false; n]));
    let mut handles = vec![];
    for (t, prog) in progs.iter().enumerate() {
        let (store, key, prog, results, done) = (store.clone(), key.clone(), prog.clone(), results.clone(), done.clone());
        handles.push(std::thread::spawn(move || {
            { let s = sched(); let mut g = s.inner.lock().unwrap(); g.tids.insert(std::thread::current().id(), t); s.cv.notify_all(); }
            for op in &prog {
                let r = std::panic::catch_unwind(std::panic::AssertUnwindSafe(|| run_op(&*store, &key, op))).unwrap_or("panic".into());
                results.lock().unwrap()[t].push(r);
            }
            done.lock().unwrap()[t] = true;
            let s = sched(); let _g = s.inner.lock().unwrap(); s.cv.notify_all();
        }));
    }
    // a step that does not complete in this time is reported as blocked (median step: tens of microseconds; a loaded
    // machine or a slow disk can stretch one step to hundreds of milliseconds, so the limit is generous). Lines marked
    // `probe=1` end in a step the model forbids: only that LAST step is expected to block and gets the short limit.
    let long = Duration::from_secs(std::env::var("VERIF_C18_STEP_SECS").ok().and_then(|s| s.parse().ok()).unwrap_or(20));
    let short = Duration::from_millis(250);
    let probe = m.get("probe").map(|s| s == "1").unwrap_or(false);
    let wait_parked_or_done = |t: usize, timeout: Duration| -> bool {
        let start = Instant::now();
        let mut g = s.inner.lock().unwrap();
        loop {
            if g.parked.contains_key(&t) || done.lock().unwrap()[t] { return true; }
            if start.elapsed() > timeout { return false; }
            g = s.cv.wait_timeout(g, Duration::from_millis(20)).unwrap().0;
        }
    };
    let mut problem: Option<String> = None;
    // every thread first reaches its first yield point (or finishes, for an empty program)
    for t in 0..n { if !wait_parked_or_done(t, long) { problem = Some(format!("timeout-start t{}", t)); } }
    if problem.is_none() {
        for (i, &t) in schedule.iter().enumerate() {
            if done.lock().unwrap()[t] { problem = Some(format!("finished-early t{} at {}", t, i)); break; }
            { let mut g = s.inner.lock().unwrap(); g.permit = Some(t); s.cv.notify_all(); }
            // wait until the permit is consumed, then until the thread parks again or finishes
            let timeout = if probe && i + 1 == schedule.len() { short } else { long };
            let start = Instant::now();
            loop {
                let g = s.inner.lock().unwrap();
                if g.permit.is_none() { break; }
                if start.elapsed() > timeout { break; }
                drop(s.cv.wait_timeout(g, Duration::from_millis(10)).unwrap());
            }
            if !wait_parked_or_done(t, timeout) { problem = Some(format!("blocked t{} at step {}", t, i)); break; }
        }
    }
    // release everything and join
    { let mut g = s.inner.lock().unwrap(); g.active = false; g.permit = None; s.cv.notify_all(); }
    let all_done_in_schedule = done.lock().unwrap().iter().all(|&d| d);
    let deadline = Instant::now() + Duration::from_secs(5);
    for h in handles {
        while !h.is_finished() && Instant::now() < deadline { std::thread::sleep(Duration::from_millis(5)); }
        if h.is_finished() { let _ = h.join(); }
    }
    let res = results.lock().unwrap().iter().map(|r| if r.is_empty() { "-".to_string() } else { r.join(",") }).collect::<Vec<_>>().join("|");
    let fin = match store.get(&key) { Ok(Some(b)) => format!("some:{}", hex(&b)), Ok(None) => "none".into(), Err(_) => "err".into() };
    if let Some(d) = dir { let _ = std::fs::remove_dir_all(d); }
    match problem {
        // after a block the released threads run on in an arbitrary order: only the block itself is the observable
        Some(p) => p.replace(' ', "_"),
        None => if all_done_in_schedule { format!("res={} final={}", res, fin) } else { format!("unfinished res={} final={}", res, fin) },
    }
}
