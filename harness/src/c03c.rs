//! C03, (nested) sharded codec chains through `CodecChain::{encode, decode, encoded_representation}` directly (no array,
//! no store): one or two sharding levels, index at either end, either index byte order, with/without crc32c on the index,
//! transposes before and crc32c after EVERY sharding level, modelled leaf chains (transpose / bytes / crc32c / shuffle).
//!
//! `c03 chains … data=<elems>`   -> `val rt=<bool> sizeok=<bool> len=<n> decl=<…> enc=<hex>`
//!     the order in which `encode_bounded` / `encode_unbounded` lay the inner chunks out depends on the schedule of the
//!     parallel loop (`fetch_add` on the running offset), so the driver does not compare `enc` with the model's encoding
//!     byte for byte: it runs the MODEL's full decoder on `enc`, checks the shard layout at every level, the length and the
//!     declared size (and counts how often the bytes are identical).
//! `c03 chaindec … bytes=<hex>`  -> `val <elems>` | `err` | `panic`
//! `c03 chainpd … bytes=<hex> rs=<region|region>`  -> `val <elems>|<elems>` | `err` (the chain's partial decoder over a stored value)
//!     the implementation's decoder on genuine, re-laid-out, truncated, extended and corrupted values; the model's
//!     `ChainS.decode` must agree on accept/reject and on the value.
use crate::arr::{dtypes, from_array_bytes, parse_elems, parse_subset, show_elems, to_array_bytes, DType};
use crate::util::*;
use std::collections::BTreeMap;
use std::sync::Arc;
use std::num::NonZeroU64;
use zarrs::array::codec::{ArrayToBytesCodecTraits, CodecChain, CodecOptions};
use zarrs::array::{BytesRepresentation, ChunkRepresentation, DataType, FillValue};
use zarrs::metadata::v3::MetadataV3;

fn tok_json(tok: &str) -> Option<String> {
    let p: Vec<&str> = tok.split(':').collect();
    match p[0] {
        "transpose" => Some(format!("{{\"name\":\"transpose\",\"configuration\":{{\"order\":[{}]}}}}", if p[1] == "-" { String::new() } else { p[1].to_string() })),
        "bytes" => Some(if p[2] == "1" && p[1] == "little" && p.get(3) == Some(&"noendian") { "{\"name\":\"bytes\"}".to_string() } else { format!("{{\"name\":\"bytes\",\"configuration\":{{\"endian\":\"{}\"}}}}", p[1]) }),
        "crc32c" => Some("{\"name\":\"crc32c\"}".to_string()),
        "shuffle" => Some(format!("{{\"name\":\"numcodecs.shuffle\",\"configuration\":{{\"elementsize\":{}}}}}", p[1])),
        _ => None,
    }
}
fn toks_json(s: &str) -> Option<Vec<String>> {
    if s == "-" { return Some(vec![]); }
    s.split('|').map(tok_json).collect()
}

/// the codec list (JSON) of the chain: level `k` is `a2as[k] ; sharding(ishs[k], …, inner = level k+1) ; b2bs[k]`
pub(crate) fn codecs_json(m: &BTreeMap<String, String>) -> Option<String> {
    let ishs = pnll(&m["ishs"]);
    let locs: Vec<&str> = m["locs"].split(';').collect();
    let iends: Vec<&str> = m["iends"].split(';').collect();
    let icrcs: Vec<&str> = m["icrcs"].split(';').collect();
    let a2as: Vec<&str> = m["a2as"].split(';').collect();
    let b2bs: Vec<&str> = m["b2bs"].split(';').collect();
    let mut inner = format!("[{}]", toks_json(&m["chain"])?.join(","));
    for k in (0..ishs.len()).rev() {
        let idx = if icrcs[k] == "1" { format!("[{{\"name\":\"bytes\",\"configuration\":{{\"endian\":\"{}\"}}}},{{\"name\":\"crc32c\"}}]", iends[k]) }
            else { format!("[{{\"name\":\"bytes\",\"configuration\":{{\"endian\":\"{}\"}}}}]", iends[k]) };
        let sh = format!("{{\"name\":\"sharding_indexed\",\"configuration\":{{\"chunk_shape\":[{}],\"codecs\":{},\"index_codecs\":{},\"index_location\":\"{}\"}}}}",
            ishs[k].iter().map(|x| x.to_string()).collect::<Vec<_>>().join(","), inner, idx, locs[k]);
        let mut all = toks_json(a2as[k])?;
        all.push(sh);
        all.extend(toks_json(b2bs[k])?);
        inner = format!("[{}]", all.join(","));
    }
    Some(inner)
}

fn repr(dtype: &str, shape: &[u64], fill: &[u8]) -> Option<ChunkRepresentation> {
    let md: MetadataV3 = serde_json::from_str(&format!("\"{}\"", dtype)).ok()?;
    let dt = DataType::from_metadata(&md, zarrs::config::global_config().data_type_aliases_v3()).ok()?;
    let shape: Vec<NonZeroU64> = shape.iter().map(|&s| NonZeroU64::new(s)).collect::<Option<Vec<_>>>()?;
    ChunkRepresentation::new(shape, dt, FillValue::new(fill.to_vec())).ok()
}

fn chain_of(m: &BTreeMap<String, String>) -> Result<(CodecChain, ChunkRepresentation), String> {
    let json = codecs_json(m).ok_or("codecs")?;
    let mds: Vec<MetadataV3> = serde_json::from_str(&json).map_err(|e| e.to_string())?;
    let chain = CodecChain::from_metadata(&mds).map_err(|e| e.to_string())?;
    let rep = repr(&m["dtype"], &pnl(&m["ssh"]), &unhex(&m["fill"])).ok_or("repr")?;
    Ok((chain, rep))
}

pub fn exec(line: &str) -> String {
    let (v, m) = parse_line(line);
    let verb = v.get(1).cloned().unwrap_or_default();
    guarded(|| {
        let (chain, rep) = match chain_of(&m) { Ok(x) => x, Err(_) => return "err-chain".into() };
        let es: usize = m["es"].parse().unwrap();
        let opts = CodecOptions::default();
        if verb == "chainpd" {
            // the value stored under a key, read through the chain's PARTIAL decoder (nested levels ask their input handle for
            // intervals and suffixes of intervals): `val <elems>|<elems>` (one entry per region), `err`
            use zarrs::storage::{store::MemoryStore, ReadableStorageTraits, StoreKey, WritableStorageTraits};
            let store = Arc::new(MemoryStore::new());
            let key = StoreKey::new("v").unwrap();
            store.set(&key, unhex(&m["bytes"]).into()).unwrap();
            let rs: Arc<dyn ReadableStorageTraits> = store;
            let input = Arc::new(zarrs::array::codec::StoragePartialDecoder::new(rs, key));
            let regions: Vec<zarrs::array_subset::ArraySubset> = m["rs"].split('|').map(parse_subset).collect();
            let pd = match Arc::new(chain).partial_decoder(input, &rep, &opts) { Ok(pd) => pd, Err(_) => return "err".into() };
            return match pd.partial_decode(&regions, &opts) {
                Ok(parts) => format!("val {}", parts.into_iter().map(|d| show_elems(&from_array_bytes(Some(es), d))).collect::<Vec<_>>().join("|")),
                Err(e) => { let _ = e.to_string(); "err".into() }
            };
        }
        if verb == "chaindec" {
            return match chain.decode(unhex(&m["bytes"]).into(), &rep, &opts) {
                Ok(d) => format!("val {}", show_elems(&from_array_bytes(Some(es), d))),
                Err(e) => { let _ = e.to_string(); "err".into() }
            };
        }
        let data = parse_elems(&m["data"]);
        let declared = match chain.encoded_representation(&rep) { Ok(r) => r, Err(_) => return "err-repr2".into() };
        let enc = match chain.encode(to_array_bytes(Some(es), &data), &rep, &opts) { Ok(e) => e.into_owned(), Err(_) => return "err-encode".into() };
        let size_ok = match declared {
            BytesRepresentation::FixedSize(n) => enc.len() as u64 == n,
            BytesRepresentation::BoundedSize(n) => enc.len() as u64 <= n,
            BytesRepresentation::UnboundedSize => true,
        };
        let decl = match declared { BytesRepresentation::FixedSize(n) => format!("fixed:{}", n), BytesRepresentation::BoundedSize(n) => format!("bounded:{}", n), BytesRepresentation::UnboundedSize => "unbounded".into() };
        let dec = match chain.decode(enc.clone().into(), &rep, &opts) { Ok(d) => from_array_bytes(Some(es), d), Err(_) => return format!("err-decode len={} decl={}", enc.len(), decl) };
        format!("val rt={} sizeok={} len={} decl={} enc={}", dec == data, size_ok, enc.len(), decl, hex(&enc))
    })
}

fn perm(rng: &mut Rng, rank: usize) -> Vec<u64> {
    let mut p: Vec<u64> = (0..rank as u64).collect();
    for i in (1..rank).rev() { let j = rng.below(i as u64 + 1) as usize; p.swap(i, j); }
    p
}
fn permute(v: &[u64], order: &[u64]) -> Vec<u64> { order.iter().map(|&a| v[a as usize]).collect() }
fn get64(v: &[u8], at: usize, big: bool) -> u64 {
    let mut b = [0u8; 8]; b.copy_from_slice(&v[at..at + 8]);
    if big { u64::from_be_bytes(b) } else { u64::from_le_bytes(b) }
}
fn put64(v: &mut [u8], at: usize, x: u64, big: bool) {
    let b = if big { x.to_be_bytes() } else { x.to_le_bytes() };
    v[at..at + 8].copy_from_slice(&b);
}
fn crc32c_suffix(b: &[u8]) -> Vec<u8> {
    use zarrs::array::codec::{BytesToBytesCodecTraits, Crc32cCodec};
    let enc = Crc32cCodec::new().encode(b.to_vec().into(), &CodecOptions::default()).unwrap();
    enc[b.len()..].to_vec()
}

/// a legal re-layout of the outermost shard value `v` (no outer bytes-to-bytes codec): the stored inner chunks in a
/// random order with random gaps, the index rewritten (and its crc32c recomputed)
fn relayout(rng: &mut Rng, v: &[u8], n: usize, at_end: bool, big: bool, crc: bool) -> Option<Vec<u8>> {
    let isz = 16 * n + if crc { 4 } else { 0 };
    if v.len() < isz { return None; }
    let ibase = if at_end { v.len() - isz } else { 0 };
    let mut chunks: Vec<(usize, Vec<u8>)> = vec![];
    for e in 0..n {
        let (o, s) = (get64(v, ibase + 16 * e, big), get64(v, ibase + 16 * e + 8, big));
        if o == u64::MAX && s == u64::MAX { continue; }
        if o.checked_add(s).map(|x| x > v.len() as u64).unwrap_or(true) { return None; }
        chunks.push((e, v[o as usize..(o + s) as usize].to_vec()));
    }
    for i in (1..chunks.len()).rev() { let j = rng.below(i as u64 + 1) as usize; chunks.swap(i, j); }
    let mut index = vec![0xffu8; 16 * n];
    let mut data: Vec<u8> = vec![];
    let base = if at_end { 0 } else { isz };
    for (e, b) in &chunks {
        let gap = rng.below(4) as usize;
        data.extend(rng.bytes(gap));
        put64(&mut index, 16 * e, (base + data.len()) as u64, big);
        put64(&mut index, 16 * e + 8, b.len() as u64, big);
        data.extend_from_slice(b);
    }
    let gap = rng.below(3) as usize;
    data.extend(rng.bytes(gap));
    if crc { let c4 = crc32c_suffix(&index); index.extend(c4); }
    Some(if at_end { [data, index].concat() } else { [index, data].concat() })
}

pub fn generate(tier: &str, seed: u64) -> Vec<String> {
    let mut rng = Rng::new(seed ^ 0xC03C);
    let thorough = tier == "thorough";
    let ncases = if thorough { 2500 } else { 260 };
    let dts: Vec<DType> = dtypes().into_iter().filter(|d| d.es.is_some() && d.name != "bool").collect();
    let mut out = vec![];
    let mut k = 0;
    let mut attempts = 0;
    while k < ncases && attempts < ncases * 20 {
        attempts += 1;
        let dt = rng.pick(&dts).clone();
        let es = dt.es.unwrap();
        let fill = rng.pick(&dt.fills).clone();
        let rank = if rng.chance(1, 25) { 0 } else { rng.range(1, 3) as usize };
        let nested = rng.chance(1, 2);
        let nl_ = if nested { 2 } else { 1 };
        let small = rank == 3 || nested;
        // shapes are generated in the coordinates each level sees; the transposes before a level permute what lies outside
        let innermost: Vec<u64> = (0..rank).map(|_| rng.range(1, if small { 2 } else { 3 })).collect();
        let mut orders: Vec<Option<Vec<u64>>> = vec![];
        for _ in 0..nl_ { orders.push(if rank >= 2 && rng.chance(1, 3) { Some(perm(&mut rng, rank)) } else { None }); }
        // level shapes, from the inside out: ish[last] = innermost; the shape level k sees (after its transpose) is a
        // multiple of ish[k]; the DECODED shape at level k is that shape un-permuted, and it is ish[k-1]
        let mut ishs: Vec<Vec<u64>> = vec![vec![]; nl_];
        ishs[nl_ - 1] = innermost.clone();
        let mut ssh: Vec<u64> = vec![];
        for lvl in (0..nl_).rev() {
            let seen: Vec<u64> = ishs[lvl].iter().map(|&x| x * rng.range(1, if small { 2 } else { 3 })).collect();
            // seen[k] = decoded[order[k]]
            let decoded: Vec<u64> = match &orders[lvl] { Some(o) => { let mut s = vec![0; rank]; for (kk, &ax) in o.iter().enumerate() { s[ax as usize] = seen[kk]; } s } None => seen.clone() };
            if lvl == 0 { ssh = decoded; } else { ishs[lvl - 1] = decoded; }
        }
        let locs: Vec<&str> = (0..nl_).map(|_| if rng.chance(1, 2) { "end" } else { "start" }).collect();
        let iends: Vec<&str> = (0..nl_).map(|_| if rng.chance(1, 2) { "little" } else { "big" }).collect();
        let icrcs: Vec<&str> = (0..nl_).map(|_| if rng.chance(1, 2) { "1" } else { "0" }).collect();
        let a2as: Vec<String> = orders.iter().map(|o| match o { Some(o) => format!("transpose:{}", nl(o)), None => "-".to_string() }).collect();
        let b2bs: Vec<&str> = (0..nl_).map(|_| if rng.chance(1, 4) { "crc32c" } else { "-" }).collect();
        let mut toks: Vec<String> = vec![];
        if rank >= 1 && rng.chance(1, 3) { toks.push(format!("transpose:{}", nl(&perm(&mut rng, rank)))); }
        let unit = if dt.name == "complex64" { 4 } else if dt.name.starts_with('r') { 1 } else { es };
        if es == 1 { toks.push("bytes:little:1:noendian".into()); } else { toks.push(format!("bytes:{}:{}", if rng.chance(1, 2) { "big" } else { "little" }, unit)); }
        for i in 0..rng.below(3) {
            match rng.below(3) { 0 if i == 0 => toks.push(format!("shuffle:{}", es)), _ => toks.push("crc32c".into()) }
        }
        let base = format!("dtype={} es={} fill={} ssh={} ishs={} locs={} iends={} icrcs={} a2as={} b2bs={} chain={}",
            dt.name, es, hex(&fill.1), nl(&ssh), nll(&ishs), locs.join(";"), iends.join(";"), icrcs.join(";"), a2as.join(";"), b2bs.join(";"), toks.join("|"));
        let (_, m) = parse_line(&format!("c03 chains {}", base));
        let (chain, rep) = match guarded_res(|| chain_of(&m)) { Ok(x) => x, Err(_) => continue };
        // data: blocks of the innermost grid (in the outermost decoded coordinates: approximated by the innermost shape
        // permuted back through the transposes) all fill or random; now and then everything fill, or nothing
        let mut eff = innermost.clone();
        for lvl in (0..nl_).rev() { if let Some(o) = &orders[lvl] { let mut s = vec![0; rank]; for (kk, &ax) in o.iter().enumerate() { s[ax as usize] = eff[kk]; } eff = s; } }
        let _ = permute;
        let nel: u64 = ssh.iter().product();
        let mode = rng.below(12);
        let mut block_fill: BTreeMap<Vec<u64>, bool> = BTreeMap::new();
        let mut data: Vec<Vec<u8>> = vec![];
        for q in 0..nel {
            let mut idx = vec![0u64; rank]; let mut r = q;
            for d in (0..rank).rev() { idx[d] = r % ssh[d]; r /= ssh[d]; }
            let blk: Vec<u64> = idx.iter().zip(&eff).map(|(i, e)| i / e).collect();
            let bf = *block_fill.entry(blk).or_insert_with(|| rng.chance(1, 3));
            if mode == 0 || (bf && mode != 1) { data.push(fill.1.clone()); } else { data.push(rng.bytes(es)); }
        }
        k += 1;
        out.push(format!("c03 chains {} data={}", base, show_elems(&data)));
        // decoder cases on derived values
        let enc = match guarded_res(|| chain.encode(to_array_bytes(Some(es), &data), &rep, &CodecOptions::default()).map(|e| e.into_owned()).map_err(|e| e.to_string())) { Ok(e) => e, Err(_) => continue };
        let mut variants: Vec<Vec<u8>> = vec![enc.clone()];
        let mut legal = 1usize;
        // re-layouts of the outermost level (possible when no bytes-to-bytes codec wraps it)
        if b2bs[0] == "-" {
            let seen0: Vec<u64> = match &orders[0] { Some(o) => o.iter().map(|&a| ssh[a as usize]).collect(), None => ssh.clone() };
            let n: usize = seen0.iter().zip(&ishs[0]).map(|(s, i)| s / i).product::<u64>() as usize;
            for _ in 0..2 { if let Some(v) = relayout(&mut rng, &enc, n, locs[0] == "end", iends[0] == "big", icrcs[0] == "1") { variants.push(v); legal += 1; } }
            // index entries rewritten: out of bounds, overflow, half sentinel, shifted
            let isz = 16 * n + if icrcs[0] == "1" { 4 } else { 0 };
            if enc.len() >= isz {
                let ibase = if locs[0] == "end" { enc.len() - isz } else { 0 };
                let big = iends[0] == "big";
                let len = enc.len() as u64;
                for _ in 0..3 {
                    let e = rng.below(n as u64) as usize;
                    let (o0, s0) = (get64(&enc, ibase + 16 * e, big), get64(&enc, ibase + 16 * e + 8, big));
                    let live = !(o0 == u64::MAX && s0 == u64::MAX);
                    let (no, ns) = match rng.below(8) {
                        0 if live => (o0, s0 + 1000),
                        1 => (len + rng.below(5), rng.range(1, 9)),
                        2 => (u64::MAX - 1, rng.range(2, 9)),
                        3 if live => (len - rng.range(0, s0.min(len)), s0),
                        4 => (rng.below(len + 1), u64::MAX),
                        5 if live => (o0, if s0 > 1 && rng.chance(1, 2) { s0 - 1 } else { s0 + 1 }),
                        6 if live => (rng.below(len.saturating_sub(s0) + 1), s0),
                        _ => (u64::MAX, rng.below(8)),
                    };
                    let mut v = enc.clone();
                    put64(&mut v, ibase + 16 * e, no, big);
                    put64(&mut v, ibase + 16 * e + 8, ns, big);
                    if icrcs[0] == "1" { let c4 = crc32c_suffix(&v[ibase..ibase + 16 * n]); v[ibase + 16 * n..ibase + 16 * n + 4].copy_from_slice(&c4); }
                    variants.push(v);
                }
            }
        }
        if !enc.is_empty() {
            variants.push(enc[..enc.len() - 1].to_vec());
            variants.push(enc[..rng.below(enc.len() as u64) as usize].to_vec());
            for _ in 0..3 { let mut e = enc.clone(); let p = rng.below(e.len() as u64) as usize; e[p] ^= 1 << rng.below(8); variants.push(e); }
            let mut e = enc.clone(); let extra = 1 + rng.below(5) as usize; e.extend(rng.bytes(extra)); variants.push(e);
        }
        let glen = rng.below(60) as usize; variants.push(rng.bytes(glen));
        // (own stream) the legal values - the encoder's own and its re-layouts - read through the PARTIAL decoder of the chain
        if rank >= 1 {
            let mut rp = Rng::new(seed ^ 0xC03C_9D ^ (k as u64) << 10);
            for v in variants.iter().take(legal) {
                let regions: Vec<String> = (0..rp.range(1, 3)).map(|_| { let mut st = vec![]; let mut n = vec![]; for &e in &ssh { let a = rp.below(e); st.push(a); n.push(rp.range(1, e - a)); } format!("{}+{}", nl(&st), nl(&n)) }).collect();
                out.push(format!("c03 chainpd {} bytes={} rs={}", base, hex(v), regions.join("|")));
            }
        }
        for v in variants { out.push(format!("c03 chaindec {} bytes={}", base, hex(&v))); }
    }
    out
}

/// only the `chainpd` lines (C12 runs them as well: a conformant value - foreign layouts included - must be read to the
/// intended values through the partial-decoding route too, at every nesting depth)
pub fn generate_pd(tier: &str, seed: u64) -> Vec<String> {
    generate(tier, seed).into_iter().filter(|l| l.starts_with("c03 chainpd ")).collect()
}
