mod util;
mod arr;
mod c01;
mod c02;
mod c02s;
mod c02p;
mod c02v;
mod c03;
mod c03c;
mod c05;
mod c05c;
mod c06;
mod c15;
mod c16;
mod c16c;
mod stress;
mod c17;
mod c18;
mod c19;
mod c20;
mod hooks;
#[cfg(feature = "zasync")]
mod c07;
mod c08;
mod c09;
mod c10;
mod c11;
mod c12;
mod c13;
mod c14;
use std::io::Write;
use util::*;

#[derive(Default)]
struct Ctx {
    arr: Option<arr::ArrCtx>,
    c06: c06::C06State,
    c16: c16::C16State,
    dtype: String,
    c08: Option<c08::StoreCtx>,
    c19: Option<c19::C19Ctx>,
    c13: Option<c13::HCtx>,
    c12: Option<c12::C12Ctx>,
    #[cfg(feature = "zasync")]
    c07: Option<c07::C07Ctx>,
    #[cfg(feature = "zasync")]
    c07h: Option<c07::HCtx>,
}

fn exec_line(ctx: &mut Ctx, line: &str) -> String {
    let mut toks = line.split_whitespace();
    let prop = toks.next().unwrap_or("");
    let second = toks.next().unwrap_or("");
    match prop {
        "c01" | "c02" | "c04" | "c05" | "c06" | "c15" | "c16" | "c17" | "c20" => {
            if prop == "c05" && (second == "pes" || second == "pesr") { return c05c::exec(line); }
            if prop == "c16" && second == "conc" { return c16c::exec(line); }
            if prop == "c16" && second == "fsrace" { let (_, m) = parse_line(line); return util::guarded(|| stress::exec_c16(&m)); }
            let (v, m) = parse_line(line);
            if second == "cfg" {
                ctx.arr = None;
                ctx.c06 = c06::C06State::default();
                ctx.dtype = m.get("dtype").cloned().unwrap_or_default();
                match util::guarded_res(|| arr::open_ctx(&m)) {
                    Ok(c) => { ctx.arr = Some(c); "ok".into() }
                    Err(e) => format!("err-open {}", e.replace(' ', "_")),
                }
            } else {
                let verb = v.get(2).cloned().unwrap_or_default();
                let dtype = ctx.dtype.clone();
                match ctx.arr.as_mut() {
                    Some(c) => if prop == "c06" { c06::exec_op(c, &mut ctx.c06, &verb, &m, &dtype) }
                        else if prop == "c17" { c17::exec_op(c, &mut ctx.c06, &verb, &m, &dtype) }
                        else if prop == "c15" { c15::exec_op(c, &verb, &m) }
                        else if prop == "c02" { c02::exec_op(c, &verb, &m) }
                        else if prop == "c20" { c20::exec_op(c, &verb, &m, line) }
                        else if prop == "c16" { c16::exec_op(c, &mut ctx.c06, &mut ctx.c16, &verb, &m, line, &dtype) }
                        else { arr::exec_op(c, &verb, &m) },
                    None => "skip".into(),
                }
            }
        }
        "c03" => c03::exec(line),
        "c02s" => c02s::exec(line),
        "c02p" => c02p::exec(line),
        "c02v" => c02v::exec(line),
        "c18" => if second == "stress" { let (_, m) = parse_line(line); util::guarded(|| stress::exec_c18(&m)) } else { c18::exec(line) },
        "c19" => {
            let (v, m) = parse_line(line);
            if second == "cfg" {
                ctx.c19 = None;
                match util::guarded_res(|| c19::open_cfg(&m)) { Ok(c) => { ctx.c19 = Some(c); "ok".into() } Err(e) => format!("err-open {}", e.replace(' ', "_")) }
            } else {
                let verb = v.get(2).cloned().unwrap_or_default();
                match ctx.c19.as_ref() { Some(c) => c19::exec_op(c, &verb, &m), None => "skip".into() }
            }
        }
        "c08" => {
            if second == "cfg" {
                let (_, m) = parse_line(line);
                ctx.c08 = None;
                ctx.c08 = Some(c08::make_store(&m["store"]));
                "ok".into()
            } else {
                match &ctx.c08 { Some(c) => c08::exec_op(c, line), None => "bad-op".into() }
            }
        }
        "c09" => c09::exec(line),
        "c10" => c10::exec(line),
        "c11" => c11::exec(line),
        "c14" => c14::exec(line),
        #[cfg(feature = "zasync")]
        "c07" => {
            let (v, m) = parse_line(line);
            if second == "cfg" {
                ctx.c07 = None;
                match util::guarded_res(|| c07::open_cfg(&m)) { Ok(c) => { ctx.c07 = Some(c); "ok".into() } Err(e) => { if std::env::var("VERIF_ERR_MSG").is_ok() { eprintln!("ERR: {}", e); } if e.starts_with("MISMATCH") { e } else { "err-open".into() } } }
            } else if second == "hcfg" { ctx.c07h = None; ctx.c07h = Some(c07::open_hcfg(&m)); "ok".into() }
            else if second == "hop" { let verb = v.get(2).cloned().unwrap_or_default(); match ctx.c07h.as_ref() { Some(c) => c07::exec_hop(c, &verb, &m), None => "skip".into() } }
            else {
                let verb = v.get(2).cloned().unwrap_or_default();
                match ctx.c07.as_mut() { Some(c) => c07::exec(c, &verb, &m), None => "skip".into() }
            }
        }
        "c12" => {
            let (v, m) = parse_line(line);
            if second == "inflate" { c12::exec_inflate(&m) }
            else if second == "zinflate" { c12::exec_zinflate(&m) }
            else if second == "cfg" {
                ctx.c12 = None;
                match util::guarded_res(|| c12::open_cfg(&m)) { Ok(c) => { ctx.c12 = Some(c); "ok".into() } Err(e) => { if std::env::var("VERIF_ERR_MSG").is_ok() { eprintln!("ERR: {}", e); } "err-open".into() } }
            } else {
                let verb = v.get(2).cloned().unwrap_or_default();
                match ctx.c12.as_mut() { Some(c) => c12::exec_op(c, &verb, &m), None => "skip".into() }
            }
        }
        "c13" => {
            let (v, m) = parse_line(line);
            if second == "cfg" { ctx.c13 = None; ctx.c13 = Some(c13::open_cfg(&m)); "ok".into() }
            else if second == "op" { let verb = v.get(2).cloned().unwrap_or_default(); match ctx.c13.as_ref() { Some(c) => c13::exec_op(c, &verb, &m), None => "skip".into() } }
            else { c13::exec_doc(line) }
        }
        _ => "bad-op".into(),
    }
}

fn main() {
    let argv: Vec<String> = std::env::args().skip(1).collect();
    if argv.is_empty() {
        eprintln!("usage: harness <run|replay> <prop> [--tier T] [--seed S] [--out F] [--replay F]");
        std::process::exit(2);
    }
    silence_panics();
    hooks::install();
    let a = parse_args(&argv[1..]);
    let lines: Vec<String> = match argv[0].as_str() {
        "run" => {
            let prop = a.rest.get(0).cloned().unwrap_or_default();
            // the generators whose judgement does not depend on fabricated data opt in to packbits bit ranges
            if matches!(prop.as_str(), "c01" | "c02" | "c06" | "c07") { arr::EXT_PACKBITS.store(true, std::sync::atomic::Ordering::Relaxed); }
            match prop.as_str() {
                "c01" => c01::generate(&a.tier, a.seed),
                "c02" => c02::generate(&a.tier, a.seed),
                "c02s" => c02s::generate(&a.tier, a.seed),
                "c02p" => c02p::generate(&a.tier, a.seed),
                "c12n" => c03c::generate_pd(&a.tier, a.seed),
                "c02v" => c02v::generate(&a.tier, a.seed),
                "c03" => c03::generate(&a.tier, a.seed),
                "c04" => c01::generate_c04(&a.tier, a.seed),
                "c04a" => c01::generate_c04a(&a.tier, a.seed),
                "c05" => c05::generate(&a.tier, a.seed),
                "c06" => c06::generate(&a.tier, a.seed),
                "c15" => c15::generate(&a.tier, a.seed),
                "c16" => c16::generate(&a.tier, a.seed),
                "c17" => c17::generate(&a.tier, a.seed),
                "c19" => c19::generate(&a.tier, a.seed),
                "c20" => c20::generate(&a.tier, a.seed),
                "c08" => c08::generate(&a.tier, a.seed),
                "c09" => c09::generate(&a.tier, a.seed),
                "c10" => c10::generate(&a.tier, a.seed),
                "c11" => c11::generate(&a.tier, a.seed),
                "c14" => c14::generate(&a.tier, a.seed),
                "c13" => c13::generate(&a.tier, a.seed),
                "c12" => c12::generate(&a.tier, a.seed),
                #[cfg(feature = "zasync")]
                "c07" => c07::generate(&a.tier, a.seed),
                _ => { eprintln!("unknown property {}", prop); std::process::exit(2) }
            }
        }
        "replay" => {
            let f = a.replay.clone().or(a.rest.get(0).cloned()).expect("replay file");
            std::fs::read_to_string(f).unwrap().lines().filter(|l| !l.trim().is_empty())
                .map(|l| match l.find(" -> ") { Some(p) => l[..p].to_string(), None => l.to_string() }).collect()
        }
        _ => { eprintln!("unknown command"); std::process::exit(2) }
    };
    // sharding: keep whole case blocks (a block starts at a `cfg` line or is a single stateless line)
    let lines: Vec<String> = match a.shard {
        None => lines,
        Some((i, n)) => {
            let mut out = vec![];
            let mut block: isize = -1;
            let mut in_cfg_block = false;
            for l in lines {
                let second = l.split_whitespace().nth(1).unwrap_or("");
                if second == "cfg" { block += 1; in_cfg_block = true; }
                else if second == "op" && in_cfg_block { /* continues the block */ }
                else { block += 1; in_cfg_block = false; }
                if (block as usize) % n == i { out.push(l); }
            }
            out
        }
    };
    let mut w: Box<dyn Write> = match &a.out {
        Some(f) => Box::new(std::io::BufWriter::new(std::fs::File::create(f).unwrap())),
        None => Box::new(std::io::BufWriter::new(std::io::stdout())),
    };
    // supervision: the cases run in a child process (`--no-isolate`, one flushed output line per request). The parent watches
    // the child's output: a crash of the child (allocation failures inside external codecs abort the process) makes the
    // request it was executing `abort`, no progress for VERIF_STALL_SECS seconds (a deadlock, a livelock) makes it `timeout`;
    // the rest of that case block is `skip` and a new child continues with the next block.
    if !argv.iter().any(|x| x == "--no-isolate") {
        let exe = std::env::current_exe().unwrap();
        let base = std::env::var("VERIF_WORK").unwrap_or_else(|_| "/verif/work".into());
        std::fs::create_dir_all(&base).ok();
        let stall = std::time::Duration::from_secs(std::env::var("VERIF_STALL_SECS").ok().and_then(|s| s.parse().ok()).unwrap_or(90));
        let continues = |l: &str| matches!(l.split_whitespace().nth(1).unwrap_or(""), "op" | "end" | "hop");
        let mut pos = 0usize;
        let mut round = 0usize;
        let mut stalls = 0usize;
        while pos < lines.len() {
            // three requests that never returned settle the matter: the rest of the run is not executed
            if stalls >= 3 { for l in &lines[pos..] { writeln!(w, "{} -> skip", l).unwrap(); } break; }
            let inp = format!("{}/sup_{}_{}.in", base, std::process::id(), round);
            let outp = format!("{}/sup_{}_{}.out", base, std::process::id(), round);
            round += 1;
            std::fs::write(&inp, lines[pos..].join("\n") + "\n").unwrap();
            let _ = std::fs::remove_file(&outp);
            let mut child = std::process::Command::new(&exe).args(["replay", &inp, "--out", &outp, "--no-isolate"])
                .stderr(if std::env::var("VERIF_PANIC_MSG").is_ok() || std::env::var("VERIF_ERR_MSG").is_ok() { std::process::Stdio::inherit() } else { std::process::Stdio::null() })
                .spawn().expect("spawn harness child");
            let (mut last_size, mut last_change) = (0u64, std::time::Instant::now());
            let mut stalled = false;
            let status = loop {
                match child.try_wait() { Ok(Some(st)) => break Some(st), Ok(None) => {}, Err(_) => break None }
                let size = std::fs::metadata(&outp).map(|m| m.len()).unwrap_or(0);
                if size != last_size { last_size = size; last_change = std::time::Instant::now(); }
                else if last_change.elapsed() > stall { stalled = true; let _ = child.kill(); let _ = child.wait(); break None; }
                std::thread::sleep(std::time::Duration::from_millis(20));
            };
            let text = std::fs::read_to_string(&outp).unwrap_or_default();
            // only complete lines count (the child may have been killed in the middle of a write)
            let mut done: Vec<&str> = text.split('\n').collect();
            if !text.ends_with('\n') { done.pop(); } else if done.last() == Some(&"") { done.pop(); }
            let done: Vec<&str> = done.into_iter().take(lines.len() - pos).collect();
            for d in &done { writeln!(w, "{}", d).unwrap(); }
            pos += done.len();
            let ok = !stalled && status.map(|s| s.success()).unwrap_or(false);
            let _ = std::fs::remove_file(&inp); let _ = std::fs::remove_file(&outp);
            if pos >= lines.len() { break; }
            if ok && done.is_empty() { writeln!(w, "{} -> abort", lines[pos]).unwrap(); pos += 1; continue; }
            if ok { continue; }
            // the request that was executing, then the rest of its block
            if stalled { stalls += 1; }
            writeln!(w, "{} -> {}", lines[pos], if stalled { "timeout" } else { "abort" }).unwrap();
            pos += 1;
            while pos < lines.len() && continues(&lines[pos]) { writeln!(w, "{} -> skip", lines[pos]).unwrap(); pos += 1; }
        }
        w.flush().unwrap();
        return;
    }
    let no_isolate = argv.iter().any(|x| x == "--no-isolate");
    let mut ctx = Ctx::default();
    for l in &lines {
        if l.starts_with('#') { writeln!(w, "{}", l).unwrap(); continue; }
        let o = exec_line(&mut ctx, l);
        writeln!(w, "{} -> {}", l, o).unwrap();
        if no_isolate { w.flush().unwrap(); }
    }
    w.flush().unwrap();
}
