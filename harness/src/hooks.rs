//! Dispatcher for the cfg(zarrs_verif) hooks of /repo: records events (C17, C19, C16) and parks threads at
//! yield points under a scheduler (C18).
use std::collections::HashMap;
use std::sync::{Arc, Condvar, Mutex, OnceLock};

pub type Event = (String, Vec<u64>);

struct Rec {
    on: bool,
    events: Vec<Event>,
    /// panic (unwind out of the library) when a thread-local cache lock is found busy, instead of deadlocking
    trap_reentry: bool,
}
static REC: Mutex<Rec> = Mutex::new(Rec { on: false, events: Vec::new(), trap_reentry: false });

/// scheduler state for yield points: threads register by thread id; a thread arriving at a yield point blocks until
/// the scheduler grants it a step
pub struct Sched {
    pub inner: Mutex<SchedInner>,
    pub cv: Condvar,
}
#[derive(Default)]
pub struct SchedInner {
    pub active: bool,
    /// logical thread number of each participating OS thread
    pub tids: HashMap<std::thread::ThreadId, usize>,
    /// thread -> label of the yield point it is parked at
    pub parked: HashMap<usize, String>,
    /// permits: thread allowed to pass its current yield point
    pub permit: Option<usize>,
    pub passed: u64,
}
pub fn sched() -> &'static Sched {
    static S: OnceLock<Sched> = OnceLock::new();
    S.get_or_init(|| Sched { inner: Mutex::new(SchedInner::default()), cv: Condvar::new() })
}

pub fn install() {
    let hook: zarrs::storage::verif_hooks::Hook = Arc::new(|event: &str, args: &[u64]| {
        if event.starts_with("mem.") || event.starts_with("fs.") {
            yield_point(event);
            return;
        }
        let mut trap = false;
        {
            let mut r = REC.lock().unwrap();
            if r.on {
                r.events.push((event.to_string(), args.to_vec()));
                if r.trap_reentry && event == "tlcache.lock" && args.first() == Some(&1) { trap = true; }
            }
        }
        if trap { panic!("verif: thread-local cache lock re-entered"); }
    });
    zarrs::storage::verif_hooks::set_hook(Some(hook));
}

pub fn start_recording(trap_reentry: bool) {
    let mut r = REC.lock().unwrap();
    r.on = true;
    r.trap_reentry = trap_reentry;
    r.events.clear();
}
pub fn stop_recording() -> Vec<Event> {
    let mut r = REC.lock().unwrap();
    r.on = false;
    std::mem::take(&mut r.events)
}

fn yield_point(label: &str) {
    let s = sched();
    let mut g = s.inner.lock().unwrap();
    if !g.active { return; }
    let me = match g.tids.get(&std::thread::current().id()) { Some(t) => *t, None => return };
    g.parked.insert(me, label.to_string());
    s.cv.notify_all();
    loop {
        if !g.active { g.parked.remove(&me); return; }
        if g.permit == Some(me) {
            g.permit = None;
            g.parked.remove(&me);
            g.passed += 1;
            s.cv.notify_all();
            return;
        }
        g = s.cv.wait(g).unwrap();
    }
}
