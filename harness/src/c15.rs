//! C15: corrupted stored data is reported, never silently decoded and never a crash.
//! After a write history the raw stored value of one chunk is altered (every byte position x masks, every truncation
//! length, extensions, adversarial shard index entries) and every read route is run under catch_unwind; the harness
//! classifies each outcome against the pristine reads and reports counts; the driver judges them by the protection the
//! configuration provides.
use crate::arr::*;
use crate::c06::{new_cache, AnyCache};
use crate::util::*;
use std::collections::BTreeMap;
use zarrs::array::{ArrayChunkCacheExt, ArrayShardedReadableExt, ArrayShardedReadableExtCache, ChunkCacheDecodedLruChunkLimit};
use zarrs::array_subset::ArraySubset;
use zarrs::storage::{ReadableStorageTraits, StoreKey, WritableStorageTraits};

#[derive(Clone, PartialEq, Debug)]
enum Out { Val(Vec<Vec<u8>>), Err, Panic }

fn classify<F: FnOnce() -> Result<Vec<Vec<u8>>, ()>>(f: F) -> Out {
    match std::panic::catch_unwind(std::panic::AssertUnwindSafe(f)) { Ok(Ok(v)) => Out::Val(v), Ok(Err(())) => Out::Err, Err(_) => Out::Panic }
}

/// the read routes: (name, full decode of the whole stored value?, outcome)
fn reads(ctx: &ArrCtx, c: &[u64]) -> Vec<(&'static str, bool, Out)> { reads_opt(ctx, c, true) }

/// the caller's options are explicit; the GLOBAL default is set to the opposite (see `exec_op`), so a route that
/// rebuilds its options from the global configuration instead of deriving them from the caller's is exposed
fn opts_for(ctx: &ArrCtx, validate: bool) -> zarrs::array::codec::CodecOptions { ctx.opts.into_builder().validate_checksums(validate).build() }

fn reads_opt(ctx: &ArrCtx, c: &[u64], validate: bool) -> Vec<(&'static str, bool, Out)> {
    let a = ctx.array.clone();
    let es = ctx.es;
    let o = opts_for(ctx, validate);
    let rank = a.dimensionality();
    let cshape = a.chunk_shape(c).map(|s| s.iter().map(|x| x.get()).collect::<Vec<u64>>()).unwrap_or(vec![1; rank]);
    let one = ArraySubset::new_with_shape(vec![1; rank]);
    let last = ArraySubset::new_with_start_shape(cshape.iter().map(|&s| s - 1).collect(), vec![1; rank]).unwrap();
    let csub = a.chunk_subset(c).ok();
    let mut v = vec![];
    v.push(("chunk", true, classify(|| a.retrieve_chunk_opt(c, &o).map(|b| from_array_bytes(es, b)).map_err(|e| { let _ = e.to_string(); }))));
    v.push(("chunk_if_exists", true, classify(|| a.retrieve_chunk_if_exists_opt(c, &o).map(|b| b.map(|b| from_array_bytes(es, b)).unwrap_or_default()).map_err(|e| { let _ = e.to_string(); }))));
    if let Some(cs) = &csub {
        let region = cs.bound(a.shape()).unwrap_or(cs.clone());
        // a region equal to the chunk decodes the whole value; a clipped edge chunk goes through the partial route
        let full = &region == cs;
        v.push(("array_subset", full, classify(|| a.retrieve_array_subset_opt(&region, &o).map(|b| from_array_bytes(es, b)).map_err(|e| { let _ = e.to_string(); }))));
    }
    let cache = ChunkCacheDecodedLruChunkLimit::new(4);
    v.push(("cached_chunk", true, classify(|| a.retrieve_chunk_opt_cached(&cache, c, &o).map(|b| from_array_bytes(es, (*b).clone())).map_err(|e| { let _ = e.to_string(); }))));
    v.push(("subset_first", false, classify(|| a.retrieve_chunk_subset_opt(c, &one, &o).map(|b| from_array_bytes(es, b)).map_err(|e| { let _ = e.to_string(); }))));
    v.push(("subset_last", false, classify(|| a.retrieve_chunk_subset_opt(c, &last, &o).map(|b| from_array_bytes(es, b)).map_err(|e| { let _ = e.to_string(); }))));
    v.push(("pd_two", false, classify(|| {
        let pd = a.partial_decoder_opt(c, &o).map_err(|e| { let _ = e.to_string(); })?;
        let ps = pd.partial_decode(&[one.clone(), last.clone()], &o).map_err(|e| { let _ = e.to_string(); })?;
        Ok(ps.into_iter().flat_map(|b| from_array_bytes(es, b)).collect())
    })));
    if let Some(cs) = &csub {
        // reads spanning several chunks (whole array, all chunks): interior chunks are decoded straight into the
        // output (`decode_into`); they decode the whole value of chunk `c` iff the chunk lies inside the array
        let region = cs.bound(a.shape()).unwrap_or(cs.clone());
        let full = &region == cs;
        let whole = ArraySubset::new_with_shape(a.shape().to_vec());
        v.push(("array_whole", full, classify(|| a.retrieve_array_subset_opt(&whole, &o).map(|b| from_array_bytes(es, b)).map_err(|e| { let _ = e.to_string(); }))));
        if let Ok(gs) = a.chunk_grid_shape().ok_or(()) {
            let all = ArraySubset::new_with_shape(gs.to_vec());
            v.push(("chunks_all", true, classify(|| a.retrieve_chunks_opt(&all, &o).map(|b| from_array_bytes(es, b)).map_err(|e| { let _ = e.to_string(); }))));
        }
    }
    if let Some(cs) = &csub {
        let region = cs.bound(a.shape()).unwrap_or(cs.clone());
        let sc = ArrayShardedReadableExtCache::new(&*a);
        v.push(("sharded_subset", false, classify(|| a.retrieve_array_subset_sharded_opt(&sc, &region, &o).map(|b| from_array_bytes(es, b)).map_err(|e| { let _ = e.to_string(); }))));
    }
    v
}

/// partial read routes confined to inner chunk `i` (C order in the inner grid) of the shard at chunk `c`
fn touch_reads(ctx: &ArrCtx, c: &[u64], inner: &[u64], i: usize) -> Vec<(&'static str, Out)> {
    let a = ctx.array.clone(); let es = ctx.es; let o = opts_for(ctx, true);
    let rank = a.dimensionality();
    let cshape = a.chunk_shape(c).map(|s| s.iter().map(|x| x.get()).collect::<Vec<u64>>()).unwrap_or(vec![1; rank]);
    let mut outs: Vec<(&'static str, Out)> = vec![];
    if !(inner.len() == rank && inner.iter().zip(&cshape).all(|(a, b)| *a > 0 && b % a == 0)) { return outs; }
    let grid: Vec<u64> = cshape.iter().zip(inner).map(|(c, i)| c / i).collect();
    let mut idx = vec![0u64; rank]; let mut r = i as u64;
    for d in (0..rank).rev() { idx[d] = r % grid[d]; r /= grid[d]; }
    let start: Vec<u64> = idx.iter().zip(inner).map(|(a, b)| a * b).collect();
    let sub = ArraySubset::new_with_start_shape(start.clone(), inner.to_vec()).unwrap();
    let first = ArraySubset::new_with_start_shape(start.clone(), vec![1; rank]).unwrap();
    let origin: Vec<u64> = a.chunk_origin(c).unwrap_or(vec![0; rank]);
    let abs = ArraySubset::new_with_start_shape(origin.iter().zip(&start).map(|(a, b)| a + b).collect(), inner.to_vec()).unwrap();
    let abs_in = abs.inbounds_shape(a.shape());
    outs.push(("t_chunk_subset", classify(|| a.retrieve_chunk_subset_opt(c, &sub, &o).map(|b| from_array_bytes(es, b)).map_err(|e| { let _ = e.to_string(); }))));
    outs.push(("t_chunk_subset1", classify(|| a.retrieve_chunk_subset_opt(c, &first, &o).map(|b| from_array_bytes(es, b)).map_err(|e| { let _ = e.to_string(); }))));
    outs.push(("t_pd", classify(|| {
        let pd = a.partial_decoder_opt(c, &o).map_err(|e| { let _ = e.to_string(); })?;
        let ps = pd.partial_decode(&[sub.clone()], &o).map_err(|e| { let _ = e.to_string(); })?;
        Ok(ps.into_iter().flat_map(|b| from_array_bytes(es, b)).collect())
    })));
    if abs_in {
        outs.push(("t_array_subset", classify(|| a.retrieve_array_subset_opt(&abs, &o).map(|b| from_array_bytes(es, b)).map_err(|e| { let _ = e.to_string(); }))));
        let sc = ArrayShardedReadableExtCache::new(&*a);
        outs.push(("t_sharded_subset", classify(|| a.retrieve_array_subset_sharded_opt(&sc, &abs, &o).map(|b| from_array_bytes(es, b)).map_err(|e| { let _ = e.to_string(); }))));
        let ici: Vec<u64> = abs.start().iter().zip(inner).map(|(a, b)| a / b).collect();
        let sc2 = ArrayShardedReadableExtCache::new(&*a);
        outs.push(("t_inner_chunk", classify(|| a.retrieve_inner_chunk_opt(&sc2, &ici, &o).map(|b| from_array_bytes(es, b)).map_err(|e| { let _ = e.to_string(); }))));
    }
    outs
}

/// CRC-32C (Castagnoli), bit-serial; used to keep an adversarially rewritten shard index self-consistent
pub fn crc32c_bitwise(data: &[u8]) -> u32 {
    let mut r: u32 = 0xFFFF_FFFF;
    for &b in data { r ^= b as u32; for _ in 0..8 { r = if r & 1 == 1 { (r >> 1) ^ 0x82F6_3B78 } else { r >> 1 }; } }
    r ^ 0xFFFF_FFFF
}

struct Tally { n: u64, panics: u64, full_diff: u64, full_same: u64, full_err: u64, part_diff: u64, part_err: u64, first_bad: String, ploc: String }
impl Tally {
    fn new() -> Self { Tally { n: 0, panics: 0, full_diff: 0, full_same: 0, full_err: 0, part_diff: 0, part_err: 0, first_bad: String::new(), ploc: String::new() } }
    fn add(&mut self, what: &str, pristine: &[(&'static str, bool, Out)], now: &[(&'static str, bool, Out)]) {
        self.n += 1;
        for (p, q) in pristine.iter().zip(now) {
            match (&q.2, q.1) {
                (Out::Panic, _) => { self.panics += 1; if self.ploc.is_empty() { self.ploc = last_panic_location(); } if self.first_bad.is_empty() { self.first_bad = format!("{}:{}:panic", what, q.0); } }
                (Out::Err, true) => self.full_err += 1,
                (Out::Err, false) => self.part_err += 1,
                (Out::Val(v), true) => { if Out::Val(v.clone()) == p.2 { self.full_same += 1 } else { self.full_diff += 1; if self.first_bad.is_empty() { self.first_bad = format!("{}:{}:different-data", what, q.0); } } }
                (Out::Val(v), false) => { if Out::Val(v.clone()) != p.2 { self.part_diff += 1 } }
            }
        }
    }
    /// reads whose results are not judged (validation off on a damaged value): only panics count
    fn add_panics_only(&mut self, what: &str, now: &[(&'static str, bool, Out)]) {
        for q in now {
            if matches!(q.2, Out::Panic) { self.panics += 1; if self.ploc.is_empty() { self.ploc = last_panic_location(); } if self.first_bad.is_empty() { self.first_bad = format!("{}:{}:panic", what, q.0); } }
        }
    }
    fn show(&self) -> String {
        format!("sum n={} panics={} full_diff={} full_same={} full_err={} part_diff={} part_err={} first={}{}", self.n, self.panics, self.full_diff, self.full_same, self.full_err, self.part_diff, self.part_err, if self.first_bad.is_empty() { "-" } else { &self.first_bad },
            if self.ploc.is_empty() { String::new() } else { format!(" ploc={}", self.ploc.replace(' ', "_")) })
    }
}

pub fn exec_op(ctx: &mut ArrCtx, verb: &str, m: &BTreeMap<String, String>) -> String {
    match verb {
        "corrupt_all" | "truncate_all" | "extend" | "setindex" | "multi" | "novalidate" => {}
        _ => return crate::arr::exec_op(ctx, verb, m),
    }
    // the global default is the opposite of what the reads ask for explicitly
    if std::env::var("VERIF_C15_GLOBAL_KEEP").is_err() { zarrs::config::global_config_mut().set_validate_checksums(verb == "novalidate"); }
    let c = pnl(&m["c"]);
    let key: StoreKey = ctx.array.chunk_key(&c);
    let store = ctx.store.store.clone();
    let pristine_val = match store.get(&key) { Ok(Some(v)) => v.to_vec(), _ => return "absent".into() };
    let pristine = reads(ctx, &c);
    if pristine.iter().any(|r| !matches!(r.2, Out::Val(_))) { let _ = store.set(&key, pristine_val.into()); return "pristine-read-failed".into(); }
    let mut t = Tally::new();
    let mut rng = Rng::new(m.get("seed").and_then(|s| s.parse().ok()).unwrap_or(1));
    let len = pristine_val.len();
    match verb {
        "corrupt_all" => {
            let masks: Vec<u8> = m["masks"].split(',').map(|x| u8::from_str_radix(x, 16).unwrap()).collect();
            let positions: Vec<usize> = if len <= 256 { (0..len).collect() } else { let mut p: Vec<usize> = (0..64).chain(len - 64..len).collect(); for _ in 0..128 { p.push(rng.below(len as u64) as usize); } p };
            // with a shard layout known (isz=, idx=): tallies of whole-value reads that did not fail, by region
            let isz: Option<usize> = m.get("isz").and_then(|s| s.parse().ok());
            let at_end = m.get("idx").map(|s| s.starts_with("end")).unwrap_or(false);
            let in_index = |pos: usize| match isz { Some(z) if len >= z => if at_end { pos >= len - z } else { pos < z }, _ => false };
            let (mut d_noterr, mut i_noterr) = (0usize, 0usize);
            for &pos in &positions { for &mask in &masks {
                let mut v = pristine_val.clone(); v[pos] ^= mask;
                store.set(&key, v.into()).unwrap();
                let now = reads(ctx, &c);
                let ne = now.iter().filter(|r| r.1 && !matches!(r.2, Out::Err)).count();
                if in_index(pos) { i_noterr += ne } else { d_noterr += ne }
                t.add(&format!("xor@{}^{:02x}", pos, mask), &pristine, &now);
            } }
            if isz.is_some() {
                let _ = store.set(&key, pristine_val.into());
                return format!("{} data_full_noterr={} index_full_noterr={}", t.show(), d_noterr, i_noterr);
            }
        }
        "novalidate" => {
            // alter only stored checksum bytes and read with validation switched off: every route must return exactly
            // what it returned before ("decoding ignores the checksum and nothing else")
            let mut spots: Vec<usize> = vec![];
            match m["sums"].as_str() {
                "outer" => { if len >= 4 { spots.extend(len - 4..len); } }
                _ => { // inner: the last four bytes of every stored inner chunk, located through the index
                    let parts: Vec<&str> = m["idx"].split(':').collect();
                    let n: usize = m["nchunks"].parse().unwrap();
                    let icrc = m.get("icrc").map(|s| s == "1").unwrap_or(false);
                    let isz = 16 * n + if icrc { 4 } else { 0 };
                    if len >= isz {
                        let base = if parts[0] == "end" { len - isz } else { 0 };
                        // the checksum of the index itself
                        if icrc { spots.extend(base + 16 * n..base + 16 * n + 4); }
                        let inner_too = m["sums"] != "index";
                        for i in 0..(if inner_too { n } else { 0 }) {
                            let rd = |p: usize| { let b: [u8; 8] = pristine_val[p..p + 8].try_into().unwrap(); if parts[1] == "big" { u64::from_be_bytes(b) } else { u64::from_le_bytes(b) } };
                            let (off, size) = (rd(base + 16 * i), rd(base + 16 * i + 8));
                            if off == u64::MAX && size == u64::MAX { continue; }
                            if size >= 4 && (off + size) as usize <= len { spots.extend((off + size - 4) as usize..(off + size) as usize); }
                        }
                    }
                }
            }
            let before = reads_opt(ctx, &c, false);
            let (mut n, mut bad, mut first) = (0u64, 0u64, String::new());
            for &pos in &spots { for mask in [0x01u8, 0xff] {
                let mut v = pristine_val.clone(); v[pos] ^= mask;
                store.set(&key, v.into()).unwrap();
                let now = reads_opt(ctx, &c, false);
                n += 1;
                for (p, q) in before.iter().zip(&now) { if p.2 != q.2 || !matches!(q.2, Out::Val(_)) { bad += 1; if first.is_empty() { first = format!("xor@{}^{:02x}:{}", pos, mask, q.0); } } }
            } }
            let _ = store.set(&key, pristine_val.into());
            return format!("nv n={} spots={} bad={} first={}", n, spots.len(), bad, if first.is_empty() { "-" } else { &first });
        }
        "multi" => {
            for k in 0..m["n"].parse::<u64>().unwrap() {
                let mut v = pristine_val.clone();
                for _ in 0..rng.range(2, 6) { if len > 0 { let p = rng.below(len as u64) as usize; v[p] = rng.next() as u8; } }
                if rng.chance(1, 4) && len > 8 { let p = rng.below(len as u64 - 8) as usize; for j in 0..8 { v[p + j] = 0xff; } }
                store.set(&key, v.into()).unwrap();
                let now = reads(ctx, &c);
                t.add(&format!("multi#{}", k), &pristine, &now);
            }
        }
        "truncate_all" => {
            let lens: Vec<usize> = if len <= 200 { (0..len).collect() } else { (0..100).chain(len - 100..len).collect() };
            let isz: usize = m.get("isz").and_then(|s| s.parse().ok()).unwrap_or(0);
            let mut short_noterr = 0;
            for &l in &lens {
                store.set(&key, pristine_val[..l].to_vec().into()).unwrap();
                let now = reads(ctx, &c);
                if l < isz { short_noterr += now.iter().filter(|r| !matches!(r.2, Out::Err)).count(); }
                t.add(&format!("trunc@{}", l), &pristine, &now);
                // the same reads with validation switched off: whatever they return, they do not panic
                t.add_panics_only(&format!("trunc@{}/novalidate", l), &reads_opt(ctx, &c, false));
            }
            let _ = store.set(&key, pristine_val.into());
            return format!("{} short_noterr={}", t.show(), short_noterr);
        }
        "extend" => {
            for extra in [1usize, 3, 4, 16, 17] {
                let mut v = pristine_val.clone(); v.extend(rng.bytes(extra));
                store.set(&key, v.into()).unwrap();
                let now = reads(ctx, &c);
                t.add(&format!("extend+{}", extra), &pristine, &now);
            }
        }
        "setindex" => {
            // idx=<end|start>:<little|big> [icrc=1] [inner=a,b]: rewrite entry i of the index (the index checksum, if any,
            // is recomputed: an adversarial, self-consistent index) and read (a) through every route of `reads`, (b) through
            // partial routes confined to inner chunk i (must be errors when the entry refers outside the value)
            let parts: Vec<&str> = m["idx"].split(':').collect();
            let n: usize = m["nchunks"].parse().unwrap();
            let i: usize = m["i"].parse().unwrap();
            let icrc = m.get("icrc").map(|s| s == "1").unwrap_or(false);
            let isz = 16 * n + if icrc { 4 } else { 0 };
            if len < isz { let _ = store.set(&key, pristine_val.into()); return "skip".into(); }
            let base = if parts[0] == "end" { len - isz } else { 0 };
            // symbolic forms: off=len-K (K bytes before the end of the value), size=orig (the entry's stored size)
            let rd = |p: usize| { let b: [u8; 8] = pristine_val[p..p + 8].try_into().unwrap(); if parts[1] == "big" { u64::from_be_bytes(b) } else { u64::from_le_bytes(b) } };
            let off: u64 = if m["off"] == "orig" { rd(base + 16 * i) } else { match m["off"].strip_prefix("len-") { Some(k) => (len as u64).saturating_sub(k.parse().unwrap()), None => m["off"].parse().unwrap() } };
            if m["off"] == "orig" && off == u64::MAX { let _ = store.set(&key, pristine_val.into()); return "skip".into(); }
            let size: u64 = if m["size"] == "orig" { rd(base + 16 * i + 8) } else { m["size"].parse().unwrap() };
            if m["size"] == "orig" && size == u64::MAX { let _ = store.set(&key, pristine_val.into()); return "skip".into(); }
            let mut v = pristine_val.clone();
            let (ob, sb) = if parts[1] == "big" { (off.to_be_bytes(), size.to_be_bytes()) } else { (off.to_le_bytes(), size.to_le_bytes()) };
            v[base + 16 * i..base + 16 * i + 8].copy_from_slice(&ob);
            v[base + 16 * i + 8..base + 16 * i + 16].copy_from_slice(&sb);
            if icrc { let crc = crc32c_bitwise(&v[base..base + 16 * n]); v[base + 16 * n..base + 16 * n + 4].copy_from_slice(&crc.to_le_bytes()); }
            store.set(&key, v.into()).unwrap();
            let now = reads(ctx, &c);
            let full_noterr = now.iter().filter(|r| r.1 && !matches!(r.2, Out::Err)).count();
            t.add("setindex", &pristine, &now);
            t.add_panics_only("setindex/novalidate", &reads_opt(ctx, &c, false));
            let mut touch = String::new();
            if let Some(inner) = m.get("inner").map(|s| pnl(s)) {
                // reads confined to inner chunk i: each must be an error or return what it returned before the corruption
                let now_t = touch_reads(ctx, &c, &inner, i);
                store.set(&key, pristine_val.clone().into()).unwrap();
                let before_t = touch_reads(ctx, &c, &inner, i);
                if !now_t.is_empty() && now_t.len() == before_t.len() {
                    let bad: Vec<&str> = now_t.iter().zip(&before_t).filter(|(q, p)| match &q.1 { Out::Err => false, Out::Panic => true, v => *v != p.1 }).map(|(q, _)| q.0).collect();
                    let pan = now_t.iter().filter(|r| matches!(r.1, Out::Panic)).count();
                    let errs = now_t.iter().filter(|r| matches!(r.1, Out::Err)).count();
                    touch = format!(" touch_n={} touch_err={} touch_bad={} touch_panics={} touch_first={}", now_t.len(), errs, bad.len(), pan, bad.first().copied().unwrap_or("-"));
                }
            }
            let _ = store.set(&key, pristine_val.into());
            return format!("{} full_noterr={} len={} eoff={} esize={}{}", t.show(), full_noterr, len, off, size, touch);
        }
        _ => {}
    }
    let _ = store.set(&key, pristine_val.into());
    t.show()
}

/// configuration families with a known protection level
fn family_cfg(rng: &mut Rng, fam: u64) -> (Cfg, String, String) {
    // returns (cfg, prot, extra fields)
    let dts = dtypes();
    let dt = dts.iter().filter(|d| d.es.is_some() && d.name != "bool").nth(rng.below(8) as usize).unwrap().clone();
    let es = dt.es.unwrap();
    let fill = dt.fills[0].clone();
    let endian = if es > 1 { ",\"configuration\":{\"endian\":\"little\"}" } else { "" };
    let bytes = format!("{{\"name\":\"bytes\"{}}}", endian);
    let sum = if rng.chance(1, 2) { ("{\"name\":\"crc32c\"}", "crc32c") } else { ("{\"name\":\"numcodecs.fletcher32\"}", "fletcher32") };
    let comp = match rng.below(4) { 0 => ("{\"name\":\"gzip\",\"configuration\":{\"level\":1}}", "gzip"), 1 => ("{\"name\":\"zstd\",\"configuration\":{\"level\":1,\"checksum\":false}}", "zstd"), 2 => ("{\"name\":\"blosc\",\"configuration\":{\"cname\":\"lz4\",\"clevel\":1,\"shuffle\":\"noshuffle\",\"blocksize\":0}}", "blosc"), _ => ("", "") };
    let shape = vec![rng.range(3, 7), rng.range(2, 5)];
    let chunk = vec![rng.range(2, 4), rng.range(2, 4)];
    let mk = |codecs_json: String, desc: String, sharded: bool, eff: Option<Vec<u64>>| Cfg {
        dtype: dt.clone(), fill: fill.clone(), shape: shape.clone(), grid: vec![(true, vec![chunk[0]]), (true, vec![chunk[1]])], regular_impl: true,
        keys: ("default".into(), "/".into()), codecs_json, chain_desc: desc, sharded, path: "/a".into(), eff_inner: eff };
    match fam {
        5 => { // sharding nested in sharding, no index checksums: the outer index can shrink an inner SHARD below its own index
            let shape = vec![4 * rng.range(1, 2), 2];
            let loc = if rng.chance(1, 2) { "end" } else { "start" };
            let loc2 = if rng.chance(1, 2) { "end" } else { "start" };
            let idx = "[{\"name\":\"bytes\",\"configuration\":{\"endian\":\"little\"}}]";
            let innermost = format!("{{\"name\":\"sharding_indexed\",\"configuration\":{{\"chunk_shape\":[1,2],\"codecs\":[{}],\"index_codecs\":{},\"index_location\":\"{}\"}}}}", bytes, idx, loc2);
            let json = format!("[{{\"name\":\"sharding_indexed\",\"configuration\":{{\"chunk_shape\":[2,2],\"codecs\":[{}],\"index_codecs\":{},\"index_location\":\"{}\"}}}}]", innermost, idx, loc);
            let cfg = Cfg { dtype: dt.clone(), fill: fill.clone(), shape, grid: vec![(true, vec![4]), (true, vec![2])], regular_impl: true,
                keys: ("default".into(), "/".into()), codecs_json: json, chain_desc: format!("shard[2x2;{};le;shard[1x2;{};le;bytes]]", loc, loc2), sharded: true, path: "/a".into(), eff_inner: Some(vec![2, 2]) };
            return (cfg, "none".into(), format!(" isz=32 nchunks=2 idx={}:little icrc=0 isum=0 nested=1", loc));
        }
        6 => { // a variable-length data type inside a shard (the variable branches of the shard decoders have their own bounds checks)
            let want = if rng.chance(1, 2) { "string" } else { "bytes" };
            let dt = dts.iter().find(|d| d.name == want).unwrap().clone();
            let fill = dt.fills[rng.below(2) as usize].clone();
            let vl = match rng.below(3) {
                0 => "{\"name\":\"zarrs.vlen_v2\"}".to_string(),
                1 => (if dt.name == "string" { "{\"name\":\"vlen-utf8\"}" } else { "{\"name\":\"vlen-bytes\"}" }).to_string(),
                _ => "{\"name\":\"zarrs.vlen\",\"configuration\":{\"index_codecs\":[{\"name\":\"bytes\",\"configuration\":{\"endian\":\"little\"}}],\"data_codecs\":[{\"name\":\"bytes\"}],\"index_data_type\":\"uint32\"}}".to_string(),
            };
            let inner = vec![1u64, chunk[1]];
            let n = (chunk[0] / inner[0]) * (chunk[1] / inner[1]);
            let loc = if rng.chance(1, 2) { "end" } else { "start" };
            let big = rng.chance(1, 2);
            let icrc = rng.chance(1, 2);
            let idx = format!("[{{\"name\":\"bytes\",\"configuration\":{{\"endian\":\"{}\"}}}}{}]", if big { "big" } else { "little" }, if icrc { ",{\"name\":\"crc32c\"}" } else { "" });
            let json = format!("[{{\"name\":\"sharding_indexed\",\"configuration\":{{\"chunk_shape\":[{},{}],\"codecs\":[{}],\"index_codecs\":{},\"index_location\":\"{}\"}}}}]", inner[0], inner[1], vl, idx, loc);
            let isz = 16 * n + if icrc { 4 } else { 0 };
            let cfg = Cfg { dtype: dt.clone(), fill, shape: shape.clone(), grid: vec![(true, vec![chunk[0]]), (true, vec![chunk[1]])], regular_impl: true,
                keys: ("default".into(), "/".into()), codecs_json: json, chain_desc: format!("shard[{}x{};{};vlen]", inner[0], inner[1], loc), sharded: true, path: "/a".into(), eff_inner: Some(inner.clone()) };
            return (cfg, "none".into(), format!(" isz={} nchunks={} idx={}:{} icrc={} isum=0 vlen=1", isz, n, loc, if big { "big" } else { "little" }, icrc as u8));
        }
        7 => { // a checksum directly over an ODD number of payload bytes (one-byte elements, odd chunk): the checksums that work on
               // 16-bit words treat the last byte on a path of its own
            let dt = dts.iter().filter(|d| d.es == Some(1) && d.name != "bool").nth(rng.below(2) as usize).unwrap_or_else(|| dts.iter().find(|d| d.es == Some(1) && d.name != "bool").unwrap()).clone();
            let fill = dt.fills[0].clone();
            let chunk = vec![*rng.pick(&[1u64, 3]), *rng.pick(&[1u64, 3, 5])];
            let shape = vec![chunk[0] * rng.range(1, 2), chunk[1] * rng.range(1, 2)];
            let cfg = Cfg { dtype: dt, fill, shape, grid: vec![(true, vec![chunk[0]]), (true, vec![chunk[1]])], regular_impl: true,
                keys: ("default".into(), "/".into()), codecs_json: format!("[{{\"name\":\"bytes\"}},{}]", sum.0), chain_desc: format!("bytes|{}", sum.1), sharded: false, path: "/a".into(), eff_inner: None };
            return (cfg, "outer".into(), String::new());
        }
        0 => { // checksum outermost
            let mut cs = vec![bytes.clone()]; let mut d = vec!["bytes".to_string()];
            if !comp.0.is_empty() { cs.push(comp.0.into()); d.push(comp.1.into()); }
            cs.push(sum.0.into()); d.push(sum.1.into());
            (mk(format!("[{}]", cs.join(",")), d.join("|"), false, None), "outer".into(), String::new())
        }
        1 => { // checksum inside a compressor
            let comp = if comp.0.is_empty() { ("{\"name\":\"gzip\",\"configuration\":{\"level\":1}}", "gzip") } else { comp };
            (mk(format!("[{},{},{}]", bytes, sum.0, comp.0), format!("bytes|{}|{}", sum.1, comp.1), false, None), "some".into(), String::new())
        }
        _ => { // sharding outermost; index with or without checksum; inner chain with or without checksum
            let inner = vec![1u64, chunk[1]];
            let n = (chunk[0] / inner[0]) * (chunk[1] / inner[1]);
            let loc = if rng.chance(1, 2) { "end" } else { "start" };
            let big = rng.chance(1, 2);
            let icrc = fam == 3;
            let inner_sum = rng.chance(1, 2);
            let idx = format!("[{{\"name\":\"bytes\",\"configuration\":{{\"endian\":\"{}\"}}}}{}]", if big { "big" } else { "little" }, if icrc { ",{\"name\":\"crc32c\"}" } else { "" });
            let ic = format!("[{}{}]", bytes, if inner_sum { format!(",{}", sum.0) } else { String::new() });
            let json = format!("[{{\"name\":\"sharding_indexed\",\"configuration\":{{\"chunk_shape\":[{},{}],\"codecs\":{},\"index_codecs\":{},\"index_location\":\"{}\"}}}}]", inner[0], inner[1], ic, idx, loc);
            let isz = 16 * n + if icrc { 4 } else { 0 };
            (mk(json, format!("shard[{}x{};{};bytes{}]", inner[0], inner[1], loc, if inner_sum { "|sum" } else { "" }), true, Some(inner.clone())),
             "none".into(), format!(" isz={} nchunks={} idx={}:{} icrc={} isum={}", isz, n, loc, if big { "big" } else { "little" }, icrc as u8, inner_sum as u8))
        }
    }
}

pub fn generate(tier: &str, seed: u64) -> Vec<String> {
    let mut rng = Rng::new(seed ^ 0xC15);
    let thorough = tier == "thorough";
    let ncfg = if thorough { 700 } else { 70 };
    let mut out = vec![];
    for k in 0..ncfg {
        let fam = (k % 8) as u64;
        let (cfg, prot, extra) = if fam < 4 || fam >= 5 { family_cfg(&mut rng, fam) } else { (gen_cfg(&mut rng, Some(k % 2 == 0)), "none".to_string(), String::new()) };
        // (every fifth case on a filesystem store: its ranged reads validate byte ranges through `ByteRange::is_valid`, the memory
        // store has its own inline copy of that test)
        out.push(cfg.cfg_line("c15", if k % 5 == 3 { "fs" } else { "memory" }, true, false, &format!(" prot={}{}", prot, extra)));
        // fill the whole array with non-fill data, then a few more writes
        let total: u64 = cfg.shape.iter().product();
        let xs: Vec<Vec<u8>> = (0..total).map(|_| { let mut e = gen_elem(&mut rng, &cfg); if e == cfg.fill.1 { if let Some(b) = e.first_mut() { if cfg.dtype.name == "bool" { *b ^= 1 } else { *b ^= 0x55 } } } e }).collect();
        out.push(format!("c15 op store_array_subset r={}+{} data={}", nl(&vec![0; cfg.shape.len()]), nl(&cfg.shape), show_elems(&xs)));
        for _ in 0..rng.below(3) { out.push(format!("c15 {}", gen_write_op(&mut rng, &cfg))); }
        let gs = cfg.grid_shape();
        for _ in 0..(if thorough { 3 } else { 2 }) {
            let c: Vec<u64> = gs.iter().map(|&g| rng.below(g.max(1))).collect();
            let cs = nl(&c);
            let layout: String = extra.split(' ').filter(|s| s.starts_with("isz=") || s.starts_with("idx=")).map(|s| format!(" {}", s)).collect();
            out.push(format!("c15 op corrupt_all c={} masks=01,80,ff seed={}{}", cs, rng.next() % 1000, layout));
            if fam == 0 { out.push(format!("c15 op novalidate c={} sums=outer", cs)); }
            if (fam == 2 || fam == 3) && (extra.contains("isum=1") || extra.contains("icrc=1")) {
                let f: BTreeMap<&str, &str> = extra.split(' ').filter_map(|kv| kv.split_once('=')).collect();
                out.push(format!("c15 op novalidate c={} sums={} nchunks={} idx={} icrc={}", cs, if extra.contains("isum=1") { "inner" } else { "index" }, f["nchunks"], f["idx"], f["icrc"]));
            }
            out.push(format!("c15 op multi c={} n={} seed={}", cs, if thorough { 60 } else { 20 }, rng.next() % 1000));
            out.push(format!("c15 op truncate_all c={}{}", cs, if extra.is_empty() { String::new() } else { extra.split(' ').filter(|s| s.starts_with("isz=")).map(|s| format!(" {}", s)).collect::<String>() }));
            out.push(format!("c15 op extend c={} seed={}", cs, rng.next() % 1000));
            if fam == 2 || fam == 3 || fam == 5 || fam == 6 {
                let fields: BTreeMap<&str, &str> = extra.split(' ').filter_map(|kv| kv.split_once('=')).collect();
                let n: u64 = fields["nchunks"].parse().unwrap();
                let inner = cfg.eff_inner.clone().unwrap_or_default();
                // entries near u64::MAX, half-sentinels (only (MAX,MAX) means "missing"), past the end, overlapping, empty
                for (off, size) in [(u64::MAX - 1, 5u64), (u64::MAX, 1), (1 << 40, 4), (0, u64::MAX - 1), (7, 1 << 33), (u64::MAX - 7, 8), (3, 0), (0, 1),
                                    (u64::MAX, 0), (0, u64::MAX), (u64::MAX, 8), (u64::MAX, u64::MAX - 1), (u64::MAX - 1, u64::MAX), (1, u64::MAX), (u64::MAX / 2 + 1, u64::MAX / 2 + 1)] {
                    out.push(format!("c15 op setindex c={} i={} off={} size={} nchunks={} idx={} icrc={} inner={}", cs, rng.below(n), off, size, n, fields["idx"], fields["icrc"], nl(&inner)));
                }
                // (nested sharding) the inner SHARD made shorter than its own index, empty, or one byte short / long
                if extra.contains("nested=1") {
                    for size in [4u64, 0, 1, 31, 33] {
                        out.push(format!("c15 op setindex c={} i={} off=orig size={} nchunks={} idx={} icrc={} inner={}", cs, rng.below(n), size, n, fields["idx"], fields["icrc"], nl(&inner)));
                    }
                }
                // an entry of the RIGHT size that starts inside the value and ends beyond it
                for k in [1u64, 2, 5] {
                    out.push(format!("c15 op setindex c={} i={} off=len-{} size=orig nchunks={} idx={} icrc={} inner={}", cs, rng.below(n), k, n, fields["idx"], fields["icrc"], nl(&inner)));
                }
            }
        }
        out.push(format!("c15 op retrieve_array_subset r={}+{}", nl(&vec![0; cfg.shape.len()]), nl(&cfg.shape)));
    }
    out
}
