//! C15: corrupted stored data is reported, never silently decoded and never a crash.
//! After a write history the raw stored value of one chunk is altered (every byte position x masks, every truncation
//! length, extensions, adversarial shard index entries) and every read route is run under catch_unwind; the harness
//! classifies each outcome against the pristine reads and reports counts; the driver judges them by the protection the
//! configuration provides.
use crate::arr::*;
use crate::c06::{new_cache, AnyCache};
use crate::util::*;
use std::collections::BTreeMap;
use zarrs::array::{ArrayChunkCacheExt, ArrayShardedReadableExt, ArrayShardedReadableExtCache, ChunkCacheDecodedLruChunkLimit};
use zarrs::array_subset::ArraySubset;
use zarrs::storage::{ReadableStorageTraits, StoreKey, WritableStorageTraits};

#[derive(Clone, PartialEq, Debug)]
enum Out { Val(Vec<Vec<u8>>), Err, Panic }

fn classify<F: FnOnce() -> Result<Vec<Vec<u8>>, ()>>(f: F) -> Out {
    match std::panic::catch_unwind(std::panic::AssertUnwindSafe(f)) { Ok(Ok(v)) => Out::Val(v), Ok(Err(())) => Out::Err, Err(_) => Out::Panic }
}

/// the read routes: (name, full decode of the whole stored value?, outcome)
fn reads(ctx: &ArrCtx, c: &[u64]) -> Vec<(&'static str, bool, Out)> {
    let a = ctx.array.clone();
    let es = ctx.es;
    let o = ctx.opts.clone();
    let rank = a.dimensionality();
    let cshape = a.chunk_shape(c).map(|s| s.iter().map(|x| x.get()).collect::<Vec<u64>>()).unwrap_or(vec![1; rank]);
    let one = ArraySubset::new_with_shape(vec![1; rank]);
    let last = ArraySubset::new_with_start_shape(cshape.iter().map(|&s| s - 1).collect(), vec![1; rank]).unwrap();
    let csub = a.chunk_subset(c).ok();
    let mut v = vec![];
    v.push(("chunk", true, classify(|| a.retrieve_chunk_opt(c, &o).map(|b| from_array_bytes(es, b)).map_err(|e| { let _ = e.to_string(); }))));
    v.push(("chunk_if_exists", true, classify(|| a.retrieve_chunk_if_exists_opt(c, &o).map(|b| b.map(|b| from_array_bytes(es, b)).unwrap_or_default()).map_err(|e| { let _ = e.to_string(); }))));
    if let Some(cs) = &csub {
        let region = cs.bound(a.shape()).unwrap_or(cs.clone());
        // a region equal to the chunk decodes the whole value; a clipped edge chunk goes through the partial route
        let full = &region == cs;
        v.push(("array_subset", full, classify(|| a.retrieve_array_subset_opt(&region, &o).map(|b| from_array_bytes(es, b)).map_err(|e| { let _ = e.to_string(); }))));
    }
    let cache = ChunkCacheDecodedLruChunkLimit::new(4);
    v.push(("cached_chunk", true, classify(|| a.retrieve_chunk_opt_cached(&cache, c, &o).map(|b| from_array_bytes(es, (*b).clone())).map_err(|e| { let _ = e.to_string(); }))));
    v.push(("subset_first", false, classify(|| a.retrieve_chunk_subset_opt(c, &one, &o).map(|b| from_array_bytes(es, b)).map_err(|e| { let _ = e.to_string(); }))));
    v.push(("subset_last", false, classify(|| a.retrieve_chunk_subset_opt(c, &last, &o).map(|b| from_array_bytes(es, b)).map_err(|e| { let _ = e.to_string(); }))));
    v.push(("pd_two", false, classify(|| {
        let pd = a.partial_decoder_opt(c, &o).map_err(|e| { let _ = e.to_string(); })?;
        let ps = pd.partial_decode(&[one.clone(), last.clone()], &o).map_err(|e| { let _ = e.to_string(); })?;
        Ok(ps.into_iter().flat_map(|b| from_array_bytes(es, b)).collect())
    })));
    if let Some(cs) = &csub {
        let region = cs.bound(a.shape()).unwrap_or(cs.clone());
        let sc = ArrayShardedReadableExtCache::new(&*a);
        v.push(("sharded_subset", false, classify(|| a.retrieve_array_subset_sharded_opt(&sc, &region, &o).map(|b| from_array_bytes(es, b)).map_err(|e| { let _ = e.to_string(); }))));
    }
    v
}

struct Tally { n: u64, panics: u64, full_diff: u64, full_same: u64, full_err: u64, part_diff: u64, part_err: u64, first_bad: String }
impl Tally {
    fn new() -> Self { Tally { n: 0, panics: 0, full_diff: 0, full_same: 0, full_err: 0, part_diff: 0, part_err: 0, first_bad: String::new() } }
    fn add(&mut self, what: &str, pristine: &[(&'static str, bool, Out)], now: &[(&'static str, bool, Out)]) {
        self.n += 1;
        for (p, q) in pristine.iter().zip(now) {
            match (&q.2, q.1) {
                (Out::Panic, _) => { self.panics += 1; if self.first_bad.is_empty() { self.first_bad = format!("{}:{}:panic", what, q.0); } }
                (Out::Err, true) => self.full_err += 1,
                (Out::Err, false) => self.part_err += 1,
                (Out::Val(v), true) => { if Out::Val(v.clone()) == p.2 { self.full_same += 1 } else { self.full_diff += 1; if self.first_bad.is_empty() { self.first_bad = format!("{}:{}:different-data", what, q.0); } } }
                (Out::Val(v), false) => { if Out::Val(v.clone()) != p.2 { self.part_diff += 1 } }
            }
        }
    }
    fn show(&self) -> String {
        format!("sum n={} panics={} full_diff={} full_same={} full_err={} part_diff={} part_err={} first={}", self.n, self.panics, self.full_diff, self.full_same, self.full_err, self.part_diff, self.part_err, if self.first_bad.is_empty() { "-" } else { &self.first_bad })
    }
}

pub fn exec_op(ctx: &mut ArrCtx, verb: &str, m: &BTreeMap<String, String>) -> String {
    match verb {
        "corrupt_all" | "truncate_all" | "extend" | "setindex" | "multi" => {}
        _ => return crate::arr::exec_op(ctx, verb, m),
    }
    let c = pnl(&m["c"]);
    let key: StoreKey = ctx.array.chunk_key(&c);
    let store = ctx.store.store.clone();
    let pristine_val = match store.get(&key) { Ok(Some(v)) => v.to_vec(), _ => return "absent".into() };
    let pristine = reads(ctx, &c);
    if pristine.iter().any(|r| !matches!(r.2, Out::Val(_))) { let _ = store.set(&key, pristine_val.into()); return "pristine-read-failed".into(); }
    let mut t = Tally::new();
    let mut rng = Rng::new(m.get("seed").and_then(|s| s.parse().ok()).unwrap_or(1));
    let len = pristine_val.len();
    match verb {
        "corrupt_all" => {
            let masks: Vec<u8> = m["masks"].split(',').map(|x| u8::from_str_radix(x, 16).unwrap()).collect();
            let positions: Vec<usize> = if len <= 256 { (0..len).collect() } else { let mut p: Vec<usize> = (0..64).chain(len - 64..len).collect(); for _ in 0..128 { p.push(rng.below(len as u64) as usize); } p };
            for &pos in &positions { for &mask in &masks {
                let mut v = pristine_val.clone(); v[pos] ^= mask;
                store.set(&key, v.into()).unwrap();
                let now = reads(ctx, &c);
                t.add(&format!("xor@{}^{:02x}", pos, mask), &pristine, &now);
            } }
        }
        "multi" => {
            for k in 0..m["n"].parse::<u64>().unwrap() {
                let mut v = pristine_val.clone();
                for _ in 0..rng.range(2, 6) { if len > 0 { let p = rng.below(len as u64) as usize; v[p] = rng.next() as u8; } }
                if rng.chance(1, 4) && len > 8 { let p = rng.below(len as u64 - 8) as usize; for j in 0..8 { v[p + j] = 0xff; } }
                store.set(&key, v.into()).unwrap();
                let now = reads(ctx, &c);
                t.add(&format!("multi#{}", k), &pristine, &now);
            }
        }
        "truncate_all" => {
            let lens: Vec<usize> = if len <= 200 { (0..len).collect() } else { (0..100).chain(len - 100..len).collect() };
            let isz: usize = m.get("isz").and_then(|s| s.parse().ok()).unwrap_or(0);
            let mut short_noterr = 0;
            for &l in &lens {
                store.set(&key, pristine_val[..l].to_vec().into()).unwrap();
                let now = reads(ctx, &c);
                if l < isz { short_noterr += now.iter().filter(|r| !matches!(r.2, Out::Err)).count(); }
                t.add(&format!("trunc@{}", l), &pristine, &now);
            }
            let _ = store.set(&key, pristine_val.into());
            return format!("{} short_noterr={}", t.show(), short_noterr);
        }
        "extend" => {
            for extra in [1usize, 3, 4, 16, 17] {
                let mut v = pristine_val.clone(); v.extend(rng.bytes(extra));
                store.set(&key, v.into()).unwrap();
                let now = reads(ctx, &c);
                t.add(&format!("extend+{}", extra), &pristine, &now);
            }
        }
        "setindex" => {
            // idx=<end|start>:<little|big>: rewrite entry i of an index WITHOUT checksum
            let parts: Vec<&str> = m["idx"].split(':').collect();
            let n: usize = m["nchunks"].parse().unwrap();
            let i: usize = m["i"].parse().unwrap();
            let (off, size): (u64, u64) = (m["off"].parse().unwrap(), m["size"].parse().unwrap());
            let isz = 16 * n;
            if len < isz { let _ = store.set(&key, pristine_val.into()); return "skip".into(); }
            let base = if parts[0] == "end" { len - isz } else { 0 };
            let mut v = pristine_val.clone();
            let (ob, sb) = if parts[1] == "big" { (off.to_be_bytes(), size.to_be_bytes()) } else { (off.to_le_bytes(), size.to_le_bytes()) };
            v[base + 16 * i..base + 16 * i + 8].copy_from_slice(&ob);
            v[base + 16 * i + 8..base + 16 * i + 16].copy_from_slice(&sb);
            store.set(&key, v.into()).unwrap();
            let now = reads(ctx, &c);
            let full_noterr = now.iter().filter(|r| r.1 && !matches!(r.2, Out::Err)).count();
            t.add("setindex", &pristine, &now);
            let _ = store.set(&key, pristine_val.into());
            return format!("{} full_noterr={} len={}", t.show(), full_noterr, len);
        }
        _ => {}
    }
    let _ = store.set(&key, pristine_val.into());
    t.show()
}

/// configuration families with a known protection level
fn family_cfg(rng: &mut Rng, fam: u64) -> (Cfg, String, String) {
    // returns (cfg, prot, extra fields)
    let dts = dtypes();
    let dt = dts.iter().filter(|d| d.es.is_some() && d.name != "bool").nth(rng.below(8) as usize).unwrap().clone();
    let es = dt.es.unwrap();
    let fill = dt.fills[0].clone();
    let endian = if es > 1 { ",\"configuration\":{\"endian\":\"little\"}" } else { "" };
    let bytes = format!("{{\"name\":\"bytes\"{}}}", endian);
    let sum = if rng.chance(1, 2) { ("{\"name\":\"crc32c\"}", "crc32c") } else { ("{\"name\":\"numcodecs.fletcher32\"}", "fletcher32") };
    let comp = match rng.below(4) { 0 => ("{\"name\":\"gzip\",\"configuration\":{\"level\":1}}", "gzip"), 1 => ("{\"name\":\"zstd\",\"configuration\":{\"level\":1,\"checksum\":false}}", "zstd"), 2 => ("{\"name\":\"blosc\",\"configuration\":{\"cname\":\"lz4\",\"clevel\":1,\"shuffle\":\"noshuffle\",\"blocksize\":0}}", "blosc"), _ => ("", "") };
    let shape = vec![rng.range(3, 7), rng.range(2, 5)];
    let chunk = vec![rng.range(2, 4), rng.range(2, 4)];
    let mk = |codecs_json: String, desc: String, sharded: bool, eff: Option<Vec<u64>>| Cfg {
        dtype: dt.clone(), fill: fill.clone(), shape: shape.clone(), grid: vec![(true, vec![chunk[0]]), (true, vec![chunk[1]])], regular_impl: true,
        keys: ("default".into(), "/".into()), codecs_json, chain_desc: desc, sharded, path: "/a".into(), eff_inner: eff };
    match fam {
        0 => { // checksum outermost
            let mut cs = vec![bytes.clone()]; let mut d = vec!["bytes".to_string()];
            if !comp.0.is_empty() { cs.push(comp.0.into()); d.push(comp.1.into()); }
            cs.push(sum.0.into()); d.push(sum.1.into());
            (mk(format!("[{}]", cs.join(",")), d.join("|"), false, None), "outer".into(), String::new())
        }
        1 => { // checksum inside a compressor
            let comp = if comp.0.is_empty() { ("{\"name\":\"gzip\",\"configuration\":{\"level\":1}}", "gzip") } else { comp };
            (mk(format!("[{},{},{}]", bytes, sum.0, comp.0), format!("bytes|{}|{}", sum.1, comp.1), false, None), "some".into(), String::new())
        }
        _ => { // sharding outermost; index with or without checksum; inner chain with or without checksum
            let inner = vec![1u64, chunk[1]];
            let n = (chunk[0] / inner[0]) * (chunk[1] / inner[1]);
            let loc = if rng.chance(1, 2) { "end" } else { "start" };
            let big = rng.chance(1, 2);
            let icrc = fam == 3;
            let inner_sum = rng.chance(1, 2);
            let idx = format!("[{{\"name\":\"bytes\",\"configuration\":{{\"endian\":\"{}\"}}}}{}]", if big { "big" } else { "little" }, if icrc { ",{\"name\":\"crc32c\"}" } else { "" });
            let ic = format!("[{}{}]", bytes, if inner_sum { format!(",{}", sum.0) } else { String::new() });
            let json = format!("[{{\"name\":\"sharding_indexed\",\"configuration\":{{\"chunk_shape\":[{},{}],\"codecs\":{},\"index_codecs\":{},\"index_location\":\"{}\"}}}}]", inner[0], inner[1], ic, idx, loc);
            let isz = 16 * n + if icrc { 4 } else { 0 };
            (mk(json, format!("shard[{}x{};{};bytes{}]", inner[0], inner[1], loc, if inner_sum { "|sum" } else { "" }), true, Some(inner.clone())),
             "none".into(), format!(" isz={} nchunks={} idx={}:{} icrc={}", isz, n, loc, if big { "big" } else { "little" }, icrc as u8))
        }
    }
}

pub fn generate(tier: &str, seed: u64) -> Vec<String> {
    let mut rng = Rng::new(seed ^ 0xC15);
    let thorough = tier == "thorough";
    let ncfg = if thorough { 600 } else { 60 };
    let mut out = vec![];
    for k in 0..ncfg {
        let fam = (k % 5) as u64;
        let (cfg, prot, extra) = if fam < 4 { family_cfg(&mut rng, fam) } else { (gen_cfg(&mut rng, Some(k % 2 == 0)), "none".to_string(), String::new()) };
        out.push(cfg.cfg_line("c15", "memory", true, false, &format!(" prot={}{}", prot, extra)));
        // fill the whole array with non-fill data, then a few more writes
        let total: u64 = cfg.shape.iter().product();
        let xs: Vec<Vec<u8>> = (0..total).map(|_| { let mut e = gen_elem(&mut rng, &cfg); if e == cfg.fill.1 { if let Some(b) = e.first_mut() { *b ^= 0x55 } } e }).collect();
        out.push(format!("c15 op store_array_subset r={}+{} data={}", nl(&vec![0; cfg.shape.len()]), nl(&cfg.shape), show_elems(&xs)));
        for _ in 0..rng.below(3) { out.push(format!("c15 {}", gen_write_op(&mut rng, &cfg))); }
        let gs = cfg.grid_shape();
        for _ in 0..(if thorough { 3 } else { 2 }) {
            let c: Vec<u64> = gs.iter().map(|&g| rng.below(g.max(1))).collect();
            let cs = nl(&c);
            out.push(format!("c15 op corrupt_all c={} masks=01,80,ff seed={}", cs, rng.next() % 1000));
            out.push(format!("c15 op multi c={} n={} seed={}", cs, if thorough { 60 } else { 20 }, rng.next() % 1000));
            out.push(format!("c15 op truncate_all c={}{}", cs, if extra.is_empty() { String::new() } else { extra.split(' ').filter(|s| s.starts_with("isz=")).map(|s| format!(" {}", s)).collect::<String>() }));
            out.push(format!("c15 op extend c={} seed={}", cs, rng.next() % 1000));
            if fam == 2 {
                let fields: BTreeMap<&str, &str> = extra.split(' ').filter_map(|kv| kv.split_once('=')).collect();
                let n: u64 = fields["nchunks"].parse().unwrap();
                for (off, size) in [(u64::MAX - 1, 5u64), (u64::MAX, 1), (1 << 40, 4), (0, u64::MAX - 1), (7, 1 << 33), (u64::MAX - 7, 8), (3, 0), (0, 1)] {
                    out.push(format!("c15 op setindex c={} i={} off={} size={} nchunks={} idx={}", cs, rng.below(n), off, size, n, fields["idx"]));
                }
            }
        }
        out.push(format!("c15 op retrieve_array_subset r={}+{}", nl(&vec![0; cfg.shape.len()]), nl(&cfg.shape)));
    }
    out
}
