//! C08: every store behaves as the same ordered key-value map. Stateful cases: `c08 cfg store=<kind>` then ops.
use crate::util::*;
use std::sync::{Arc, Mutex};
use zarrs::storage::byte_range::ByteRange;
use zarrs::storage::storage_adapter::async_to_sync::{AsyncToSyncBlockOn, AsyncToSyncStorageAdapter};
use zarrs::storage::storage_adapter::performance_metrics::PerformanceMetricsStorageAdapter;
use zarrs::storage::storage_adapter::usage_log::UsageLogStorageAdapter;
use zarrs::storage::store::MemoryStore;
use zarrs::storage::{
    ListableStorageTraits, ReadableStorageTraits, ReadableWritableListableStorageTraits, StoreKey,
    StoreKeyOffsetValue, StorePrefix, WritableStorageTraits,
};

pub struct TokioBlockOn(pub tokio::runtime::Runtime);
impl AsyncToSyncBlockOn for TokioBlockOn {
    fn block_on<F: core::future::Future>(&self, future: F) -> F::Output {
        self.0.block_on(future)
    }
}
pub fn rt() -> TokioBlockOn {
    TokioBlockOn(tokio::runtime::Builder::new_current_thread().enable_all().build().unwrap())
}

pub type DynStore = Arc<dyn ReadableWritableListableStorageTraits>;

// ---------------------------------------------------------------- an async store whose futures really suspend
/// `LatencyStore`: an asynchronous store over a synchronous `MemoryStore` (shared through the `Arc`, so a synchronous
/// handle can look at the same contents). Every operation awaits a deterministic number (0..=7) of
/// `tokio::task::yield_now()` points, a pure function of (seed, operation, key/prefix): some before the operation
/// takes effect (request latency), the rest after it (response latency). A single `get`/`set`/`erase`/`list*` is
/// atomic (one call on the `MemoryStore`, which locks); only the ORDER in which concurrently issued operations take
/// effect and complete varies, which is what a remote back end does. `set_partial_values` is the generic
/// `zarrs_storage::async_store_set_partial_values` read-modify-write over `get`/`set`, exactly as in the
/// object_store and opendal wrappers (zarrs_object_store/src/lib.rs, zarrs_opendal/src/async.rs).
pub struct LatencyStore { pub inner: Arc<MemoryStore>, pub seed: u64 }
impl LatencyStore {
    pub fn new(seed: u64) -> Self { LatencyStore { inner: Arc::new(MemoryStore::new()), seed } }
    /// (yields before, yields after) for operation `op` on `name`
    pub fn latency(&self, op: u8, name: &str) -> (u32, u32) {
        // FNV-1a over (seed, op, name), finished with a splitmix round
        let mut h: u64 = 0xcbf29ce484222325;
        for b in self.seed.to_le_bytes().iter().chain([op].iter()).chain(name.as_bytes().iter()) { h = (h ^ *b as u64).wrapping_mul(0x100000001b3); }
        h = (h ^ (h >> 30)).wrapping_mul(0xBF58476D1CE4E5B9); h = (h ^ (h >> 27)).wrapping_mul(0x94D049BB133111EB); h ^= h >> 31;
        let total = (h % 8) as u32;
        let pre = ((h >> 8) % (total as u64 + 1)) as u32;
        (pre, total - pre)
    }
}
async fn pause(n: u32) { for _ in 0..n { tokio::task::yield_now().await; } }
use zarrs::storage::{AsyncBytes, StorageError, StoreKeys, StoreKeysPrefixes};
#[async_trait::async_trait]
impl zarrs::storage::AsyncReadableStorageTraits for LatencyStore {
    async fn get_partial_values_key(&self, key: &StoreKey, byte_ranges: &[ByteRange]) -> Result<Option<Vec<AsyncBytes>>, StorageError> {
        let (a, b) = self.latency(1, key.as_str()); pause(a).await;
        let r = self.inner.get_partial_values_key(key, byte_ranges).map(|o| o.map(|v| v.into_iter().map(|b| AsyncBytes::from(b.to_vec())).collect()));
        pause(b).await; r
    }
    async fn size_key(&self, key: &StoreKey) -> Result<Option<u64>, StorageError> {
        let (a, b) = self.latency(2, key.as_str()); pause(a).await; let r = self.inner.size_key(key); pause(b).await; r
    }
}
#[async_trait::async_trait]
impl zarrs::storage::AsyncWritableStorageTraits for LatencyStore {
    async fn set(&self, key: &StoreKey, value: AsyncBytes) -> Result<(), StorageError> {
        let (a, b) = self.latency(3, key.as_str()); pause(a).await; let r = self.inner.set(key, value.to_vec().into()); pause(b).await; r
    }
    async fn set_partial_values(&self, kovs: &[StoreKeyOffsetValue]) -> Result<(), StorageError> {
        zarrs::storage::async_store_set_partial_values(self, kovs).await
    }
    async fn erase(&self, key: &StoreKey) -> Result<(), StorageError> {
        let (a, b) = self.latency(4, key.as_str()); pause(a).await; let r = self.inner.erase(key); pause(b).await; r
    }
    async fn erase_prefix(&self, prefix: &StorePrefix) -> Result<(), StorageError> {
        let (a, b) = self.latency(5, prefix.as_str()); pause(a).await; let r = self.inner.erase_prefix(prefix); pause(b).await; r
    }
}
#[async_trait::async_trait]
impl zarrs::storage::AsyncListableStorageTraits for LatencyStore {
    async fn list(&self) -> Result<StoreKeys, StorageError> { let (a, b) = self.latency(6, ""); pause(a).await; let r = self.inner.list(); pause(b).await; r }
    async fn list_prefix(&self, prefix: &StorePrefix) -> Result<StoreKeys, StorageError> { let (a, b) = self.latency(7, prefix.as_str()); pause(a).await; let r = self.inner.list_prefix(prefix); pause(b).await; r }
    async fn list_dir(&self, prefix: &StorePrefix) -> Result<StoreKeysPrefixes, StorageError> { let (a, b) = self.latency(8, prefix.as_str()); pause(a).await; let r = self.inner.list_dir(prefix); pause(b).await; r }
    async fn size_prefix(&self, prefix: &StorePrefix) -> Result<u64, StorageError> { let (a, b) = self.latency(9, prefix.as_str()); pause(a).await; let r = self.inner.size_prefix(prefix); pause(b).await; r }
}

pub struct StoreCtx {
    pub kind: String,
    pub store: DynStore,
    pub dir: Option<std::path::PathBuf>,
}
impl Drop for StoreCtx {
    fn drop(&mut self) {
        if let Some(d) = &self.dir {
            let _ = std::fs::remove_dir_all(d);
        }
    }
}

static COUNTER: std::sync::atomic::AtomicU64 = std::sync::atomic::AtomicU64::new(0);
pub fn scratch_dir(tag: &str) -> std::path::PathBuf {
    let base = std::env::var("VERIF_WORK").unwrap_or_else(|_| "/verif/work".to_string());
    let n = COUNTER.fetch_add(1, std::sync::atomic::Ordering::SeqCst);
    let p = std::path::PathBuf::from(base).join(format!("st_{}_{}_{}", std::process::id(), tag, n));
    std::fs::create_dir_all(&p).unwrap();
    p
}

pub fn make_store(kind: &str) -> StoreCtx {
    let mut dir = None;
    let store: DynStore = match kind {
        "memory" | "zip" => Arc::new(MemoryStore::new()),
        "fs" => {
            let d = scratch_dir("fs");
            dir = Some(d.clone());
            Arc::new(zarrs_filesystem::FilesystemStore::new(&d).unwrap().sorted())
        }
        "fsdio" => {
            let d = scratch_dir("fsdio");
            dir = Some(d.clone());
            let mut o = zarrs_filesystem::FilesystemStoreOptions::default();
            o.direct_io(true);
            Arc::new(zarrs_filesystem::FilesystemStore::new_with_options(&d, o).unwrap().sorted())
        }
        "usagelog" => {
            let sink: Arc<Mutex<dyn std::io::Write + Send + Sync>> = Arc::new(Mutex::new(std::io::sink()));
            Arc::new(UsageLogStorageAdapter::new(Arc::new(MemoryStore::new()), sink, || String::new()))
        }
        "perf" => Arc::new(PerformanceMetricsStorageAdapter::new(Arc::new(MemoryStore::new()))),
        "os_mem" => {
            let s = Arc::new(zarrs_object_store::AsyncObjectStore::new(object_store::memory::InMemory::new()));
            Arc::new(AsyncToSyncStorageAdapter::new(s, rt()))
        }
        "os_fs" => {
            let d = scratch_dir("osfs");
            dir = Some(d.clone());
            let s = Arc::new(zarrs_object_store::AsyncObjectStore::new(
                object_store::local::LocalFileSystem::new_with_prefix(&d).unwrap(),
            ));
            Arc::new(AsyncToSyncStorageAdapter::new(s, rt()))
        }
        "od_mem" => {
            let op = opendal::Operator::new(opendal::services::Memory::default()).unwrap().finish().blocking();
            Arc::new(zarrs_opendal::OpendalStore::new(op))
        }
        "od_fs" => {
            let d = scratch_dir("odfs");
            dir = Some(d.clone());
            let op = opendal::Operator::new(opendal::services::Fs::default().root(&d.to_string_lossy())).unwrap().finish().blocking();
            Arc::new(zarrs_opendal::OpendalStore::new(op))
        }
        "aod_mem" => {
            let op = opendal::Operator::new(opendal::services::Memory::default()).unwrap().finish();
            let s = Arc::new(zarrs_opendal::AsyncOpendalStore::new(op));
            Arc::new(AsyncToSyncStorageAdapter::new(s, rt()))
        }
        // the generic read-modify-write `async_store_set_partial_values` over a store whose futures suspend: `lat<seed>`
        k if k.starts_with("lat") => {
            let s = Arc::new(LatencyStore::new(k[3..].parse().unwrap_or(0)));
            Arc::new(AsyncToSyncStorageAdapter::new(s, rt()))
        }
        "aod_fs" => {
            let d = scratch_dir("aodfs");
            dir = Some(d.clone());
            let op = opendal::Operator::new(opendal::services::Fs::default().root(&d.to_string_lossy())).unwrap().finish();
            let s = Arc::new(zarrs_opendal::AsyncOpendalStore::new(op));
            Arc::new(AsyncToSyncStorageAdapter::new(s, rt()))
        }
        _ => panic!("unknown store kind"),
    };
    StoreCtx { kind: kind.to_string(), store, dir }
}

pub fn parse_range(s: &str) -> ByteRange {
    // f<off>:<len> | f<off>: | s<len>
    if let Some(r) = s.strip_prefix('s') {
        ByteRange::Suffix(r.parse().unwrap())
    } else {
        let r = &s[1..];
        let p = r.find(':').unwrap();
        let off: u64 = r[..p].parse().unwrap();
        let len = &r[p + 1..];
        ByteRange::FromStart(off, if len.is_empty() { None } else { Some(len.parse().unwrap()) })
    }
}

fn keys_str(ks: &[StoreKey]) -> String {
    if ks.is_empty() { "~".into() } else { ks.iter().map(|k| k.as_str().to_string()).collect::<Vec<_>>().join(",") }
}

/// build a zip archive from the shadow store and open it through the zip adapter
fn zip_view(shadow: &DynStore) -> Arc<dyn ReadableListableZip> {
    use std::io::Write;
    let mut buf = std::io::Cursor::new(Vec::new());
    {
        let mut zw = zip::ZipWriter::new(&mut buf);
        let keys = shadow.list().unwrap();
        // alternate stored / deflated archives (size_key must report the value length either way)
        let method = if keys.len() % 2 == 0 { zip::CompressionMethod::Stored } else { zip::CompressionMethod::Deflated };
        let opts = zip::write::SimpleFileOptions::default().compression_method(method);
        for k in keys {
            zw.start_file(k.as_str(), opts).unwrap();
            let v = shadow.get(&k).unwrap().unwrap();
            zw.write_all(&v).unwrap();
        }
        zw.finish().unwrap();
    }
    let holder = Arc::new(MemoryStore::new());
    let zk = StoreKey::new("archive.zip").unwrap();
    holder.set(&zk, buf.into_inner().into()).unwrap();
    Arc::new(zarrs_zip::ZipStorageAdapter::new(holder, zk).unwrap())
}
pub trait ReadableListableZip: ReadableStorageTraits + ListableStorageTraits {}
impl<T: ReadableStorageTraits + ListableStorageTraits> ReadableListableZip for T {}

pub fn exec_op(ctx: &StoreCtx, line: &str) -> String {
    let (v, m) = parse_line(line);
    let verb = v.get(2).map(|s| s.as_str()).unwrap_or("");
    let key = |k: &str| StoreKey::new(m[k].clone()).unwrap();
    let prefix = |k: &str| StorePrefix::new(if m[k] == "~" { "" } else { m[k].as_str() }).unwrap();
    let e = |r: Result<(), zarrs::storage::StorageError>| if r.is_ok() { "ok".to_string() } else { "err".to_string() };
    let s = &ctx.store;
    let is_zip = ctx.kind == "zip";
    guarded(|| {
        // zip: reads go through an archive built from the shadow state
        let zv = if is_zip && matches!(verb, "get" | "getp" | "getpm" | "size" | "sizep" | "list" | "listp" | "listd") { Some(zip_view(s)) } else { None };
        match verb {
            "set" => e(s.set(&key("k"), unhex(&m["v"]).into())),
            "setp" => {
                // kov=<key>@<off>=<hex>;...
                let vals: Vec<(StoreKey, u64, Vec<u8>)> = m["kov"].split(';').map(|t| {
                    let a = t.rfind('@').unwrap();
                    let b = t.rfind('=').unwrap();
                    (StoreKey::new(t[..a].to_string()).unwrap(), t[a + 1..b].parse().unwrap(), unhex(&t[b + 1..]))
                }).collect();
                let kovs: Vec<StoreKeyOffsetValue> = vals.iter().map(|(k, o, v)| StoreKeyOffsetValue::new(k.clone(), *o, v)).collect();
                e(s.set_partial_values(&kovs))
            }
            "erase" => e(s.erase(&key("k"))),
            "erasev" => {
                let ks: Vec<StoreKey> = m["ks"].split(',').map(|k| StoreKey::new(k.to_string()).unwrap()).collect();
                e(s.erase_values(&ks))
            }
            "erasep" => e(s.erase_prefix(&prefix("p"))),
            "get" => {
                let r = match &zv { Some(z) => z.get(&key("k")), None => s.get(&key("k")) };
                match r { Ok(Some(b)) => format!("some {}", hex(&b)), Ok(None) => "none".into(), Err(_) => "err".into() }
            }
            "getp" => {
                let rs: Vec<ByteRange> = m["r"].split(',').map(parse_range).collect();
                let r = match &zv { Some(z) => z.get_partial_values_key(&key("k"), &rs), None => s.get_partial_values_key(&key("k"), &rs) };
                match r {
                    Ok(Some(bs)) => format!("some {}", bs.iter().map(|b| hex(b)).collect::<Vec<_>>().join(";")),
                    Ok(None) => "none".into(),
                    Err(_) => "err".into(),
                }
            }
            "getpm" => {
                // the MULTI-key ranged get (`get_partial_values`, batched by key): kr=<key>@<range>;...  one answer per request
                let krs: Vec<zarrs::storage::StoreKeyRange> = m["kr"].split(';').map(|t| { let (k, r) = t.split_once('@').unwrap(); zarrs::storage::StoreKeyRange::new(StoreKey::new(k).unwrap(), parse_range(r)) }).collect();
                let r = match &zv { Some(z) => z.get_partial_values(&krs), None => s.get_partial_values(&krs) };
                match r {
                    Ok(vs) => format!("multi {}", vs.iter().map(|v| match v { Some(b) => format!("some:{}", hex(b)), None => "none".to_string() }).collect::<Vec<_>>().join(";")),
                    Err(_) => "err".into(),
                }
            }
            "vio" => {
                // `StorageValueIO` (the `Read + Seek` view of one value that the zip adapter reads through): seek, then ONE `read`
                // into a buffer that may reach beyond the value - a short read or an error, never a panic
                use std::io::{Read, Seek, SeekFrom};
                match s.size_key(&key("k")) {
                    Ok(Some(n)) if n > 0 => {
                        let mut io = zarrs::storage::StorageValueIO::new(s.clone(), key("k"), n);
                        let pos: u64 = m["pos"].parse().unwrap(); let len: usize = m["len"].parse().unwrap();
                        let mut buf = vec![0u8; len];
                        match io.seek(SeekFrom::Start(pos)).and_then(|_| io.read(&mut buf)) { Ok(k) if k <= len => format!("some {}", hex(&buf[..k])), Ok(_) => "overlong".into(), Err(_) => "err".into() }
                    }
                    // no value to view (absent, empty, or no size): the request is the plain ranged get
                    _ => match s.get_partial_values_key(&key("k"), &[ByteRange::FromStart(m["pos"].parse().unwrap(), Some(m["len"].parse().unwrap()))]) {
                        Ok(Some(bs)) => format!("some {}", bs.iter().map(|b| hex(b)).collect::<Vec<_>>().join(";")), Ok(None) => "none".into(), Err(_) => "err".into() },
                }
            }
            "size" => {
                let r = match &zv { Some(z) => z.size_key(&key("k")), None => s.size_key(&key("k")) };
                match r { Ok(Some(n)) => format!("some {}", n), Ok(None) => "none".into(), Err(_) => "err".into() }
            }
            "sizep" => {
                let r = match &zv { Some(z) => z.size_prefix(&prefix("p")), None => s.size_prefix(&prefix("p")) };
                match r { Ok(n) => format!("val {}", n), Err(_) => "err".into() }
            }
            "list" => {
                let r = match &zv { Some(z) => z.list(), None => s.list() };
                match r { Ok(mut ks) => { ks.sort(); format!("keys {}", keys_str(&ks)) } Err(_) => "err".into() }
            }
            "listp" => {
                let r = match &zv { Some(z) => z.list_prefix(&prefix("p")), None => s.list_prefix(&prefix("p")) };
                match r { Ok(mut ks) => { ks.sort(); format!("keys {}", keys_str(&ks)) } Err(_) => "err".into() }
            }
            "listd" => {
                let r = match &zv { Some(z) => z.list_dir(&prefix("p")), None => s.list_dir(&prefix("p")) };
                match r {
                    Ok(kp) => {
                        let mut ks = kp.keys().to_vec(); ks.sort();
                        let mut ps: Vec<String> = kp.prefixes().iter().map(|p| p.as_str().to_string()).collect(); ps.sort();
                        format!("dir {} | {}", keys_str(&ks), if ps.is_empty() { "~".to_string() } else { ps.join(",") })
                    }
                    Err(_) => "err".into(),
                }
            }
            _ => "bad-op".into(),
        }
    })
}

/// hierarchy-shaped key universe: no key is a directory prefix of another
// sibling names that sort below and above `/` (`.`, `-` < `/` < digits, letters) are included on purpose
const KEYS: [&str; 17] = ["a/b", "a/c", "a/d/e", "a/d/f", "a/g/h/i", "j", "k/l", "k/m/n", "zarr.json", "a/zarr.json", "c/0/1", "c/0/2", "a/d.v2/e", "a/d-1/f", "a.z", "a-b/c", "a/d0/e"];
const PREFIXES: [&str; 12] = ["~", "a/", "a/d/", "a/g/", "a/g/h/", "k/", "k/m/", "c/", "x/", "a/d.v2/", "a-b/", "a/d-1/"];

fn gen_range(rng: &mut Rng, len: u64, oob_ok: bool) -> String {
    let len1 = len + if oob_ok && rng.chance(1, 5) { rng.range(1, 4) } else { 0 };
    match rng.below(3) {
        0 => { let o = rng.below(len1 + 1); let l = rng.below(len1 - o + 1); format!("f{}:{}", o, l) }
        1 => { let o = rng.below(len1 + 1); format!("f{}:", o) }
        _ => format!("s{}", rng.below(len1 + 1)),
    }
}

/// nested directories that are created and emptied again (hierarchy-shaped): `list_dir` at every level must not
/// report the directories left behind
const DEEP_KEYS: [&str; 9] = ["a/b/c/k", "a/b/c/l", "a/b/m", "a/n", "a/b/c/d/e/f", "p/q/r/s", "p/q/t", "u", "a/b/c2/k"];
// `u/`, `a/n/` name a key and `u/v/` lies below one: erase_prefix there is `ok` with nothing erased (repaired F-C08-9)
const DEEP_PREFIXES: [&str; 13] = ["~", "a/", "a/b/", "a/b/c/", "a/b/c/d/", "a/b/c/d/e/", "p/", "p/q/", "p/q/r/", "a/b/c2/", "u/", "a/n/", "u/v/"];
/// NOT hierarchy-shaped: a key is a directory prefix of another key (`set a/b/c` while `a/b` is a file fails ...).
/// The ordered-map specification does not apply (`cfg ... spec=0`); the driver compares with the directory-tree model only.
const CLASH_KEYS: [&str; 8] = ["a", "a/b", "a/b/c", "a/b/c/k", "d", "d/e", "a/x", "d/e/f/g"];
const CLASH_PREFIXES: [&str; 8] = ["~", "a/", "a/b/", "a/b/c/", "d/", "d/e/", "d/e/f/", "a/x/"];

/// one `set_partial_values` call with REPEATED and INTERLEAVED keys (`[A,B,A]`, `[A,A,B,A]`, `[A,B,A,B]`, `[A,B,C,A,B]`, ...):
/// overlapping offsets, growing lengths, sometimes past the current end (zero extension). The specification is the
/// sequential application of the entries in order (`Spec.step … (.setPartial kovs)`; `Props/C08.lean: rmw_refines`).
fn gen_setp_interleaved(rng: &mut Rng, keys: &[&str], nokeys: usize, allow_empty: bool, lens: &mut std::collections::BTreeMap<String, u64>) -> String {
    const PATTERNS: [&[usize]; 8] = [&[0, 1, 0], &[0, 0, 1, 0], &[0, 1, 0, 1], &[0, 1, 2, 0, 1], &[0, 1, 1, 0], &[0, 1, 0, 2, 0], &[0, 0], &[0, 1, 2, 1, 0, 2]];
    let pat = PATTERNS[rng.below(PATTERNS.len() as u64) as usize];
    // distinct keys for the roles A, B, C
    let mut roles: Vec<&str> = vec![];
    while roles.len() < 3 { let k = keys[rng.below(nokeys.max(3).min(keys.len()) as u64) as usize]; if !roles.contains(&k) { roles.push(k); } }
    let mut parts = vec![];
    let mut growth = 0u64;
    for &r in pat {
        let kk = roles[r];
        let c = *lens.get(kk).unwrap_or(&0);
        // overlapping the previous entries of this key most of the time; sometimes beyond the end
        let off = match rng.below(4) { 0 => 0, 1 => c.saturating_sub(rng.range(0, 2)), 2 => c + rng.below(3), _ => rng.below(c + 2) };
        growth += 1;
        let n = if allow_empty && rng.chance(1, 12) { 0 } else { rng.range(1, 2 + growth) };
        let e = lens.entry(kk.to_string()).or_insert(0);
        *e = (*e).max(off + n);
        parts.push(format!("{}@{}={}", kk, off, hex(&rng.bytes(n as usize))));
    }
    format!("c08 op setp kov={}", parts.join(";"))
}

pub fn gen_case(rng: &mut Rng, kind: &str, nops: usize, out: &mut Vec<String>) {
    gen_case_univ(rng, kind, nops, &KEYS, &PREFIXES, true, out)
}

/// the scripted history of F-C08-2 at depth: create nested directories, empty them, list every level, erase a middle level
pub fn gen_case_emptied(rng: &mut Rng, kind: &str, out: &mut Vec<String>) {
    out.push(format!("c08 cfg store={}", kind));
    let listall = |out: &mut Vec<String>| {
        for p in ["~", "a/", "a/b/", "a/b/c/", "a/b/c/d/"] { out.push(format!("c08 op listd p={}", p)); }
        out.push("c08 op list".to_string());
        out.push("c08 op listp p=a/b/".to_string());
        out.push("c08 op sizep p=a/".to_string());
    };
    out.push(format!("c08 op set k=a/b/c/k v={}", hex(&rng.bytes(3))));
    listall(out);
    out.push("c08 op erase k=a/b/c/k".to_string());
    listall(out);
    out.push(format!("c08 op set k=a/b/c/d/e v={}", hex(&rng.bytes(2))));
    out.push(format!("c08 op set k=a/n v={}", hex(&rng.bytes(4))));
    listall(out);
    out.push("c08 op erasev ks=a/b/c/d/e,a/b/c/k".to_string());
    listall(out);
    out.push(format!("c08 op setp kov=a/b/c/l@2={};a/b/m@0={}", hex(&rng.bytes(2)), hex(&rng.bytes(1))));
    out.push("c08 op erasep p=a/b/c/".to_string());
    listall(out);
    out.push("c08 op erasep p=a/b/".to_string());
    listall(out);
    out.push("c08 op erase k=a/n".to_string());
    listall(out);
    out.push("c08 op erasep p=~".to_string());
    listall(out);
    out.push(format!("c08 op set k=a/b/c/k v={}", hex(&rng.bytes(1))));
    listall(out);
}

pub fn gen_case_univ(rng: &mut Rng, kind: &str, nops: usize, keys: &[&str], prefixes: &[&str], spec_on: bool, out: &mut Vec<String>) {
    out.push(if spec_on { format!("c08 cfg store={}", kind) } else { format!("c08 cfg store={} spec=0", kind) });
    let nokeys = if rng.chance(1, 3) { 3 } else { keys.len() };
    // the third-party back ends are specified for non-empty values / non-empty ranges only
    let allow_empty = matches!(kind, "memory" | "fs" | "fsdio" | "usagelog" | "perf" | "zip") || kind.starts_with("lat");
    let mut lens: std::collections::BTreeMap<String, u64> = Default::default();
    for _ in 0..nops {
        let k = keys[rng.below(nokeys as u64) as usize];
        let p = prefixes[rng.below(prefixes.len() as u64) as usize];
        let cur = *lens.get(k).unwrap_or(&0);
        let line = match rng.below(16) {
            0 | 1 | 2 => {
                let n = if allow_empty && rng.chance(1, 8) { 0 } else { rng.range(1, 12) };
                lens.insert(k.to_string(), n);
                format!("c08 op set k={} v={}", k, hex(&rng.bytes(n as usize)))
            }
            3 if rng.chance(1, 2) => gen_setp_interleaved(rng, keys, nokeys, allow_empty, &mut lens),
            3 | 4 => {
                let cnt = rng.range(1, 3);
                let mut parts = vec![];
                for j in 0..cnt {
                    let kk = if j > 0 && rng.chance(1, 2) { k } else { keys[rng.below(nokeys as u64) as usize] };
                    let c = *lens.get(kk).unwrap_or(&0);
                    let off = rng.below(c + 4);
                    let n = if allow_empty && rng.chance(1, 10) { 0 } else { rng.range(1, 6) };
                    let e = lens.entry(kk.to_string()).or_insert(0);
                    *e = (*e).max(off + n);
                    parts.push(format!("{}@{}={}", kk, off, hex(&rng.bytes(n as usize))));
                }
                format!("c08 op setp kov={}", parts.join(";"))
            }
            5 => { lens.remove(k); format!("c08 op erase k={}", k) }
            6 => {
                let k2 = keys[rng.below(nokeys as u64) as usize];
                lens.remove(k); lens.remove(k2);
                format!("c08 op erasev ks={},{}", k, k2)
            }
            7 => {
                if rng.chance(1, 3) {
                    let pp = if p == "~" { "" } else { p };
                    lens.retain(|kk, _| !kk.starts_with(pp));
                    format!("c08 op erasep p={}", p)
                } else { format!("c08 op size k={}", k) }
            }
            8 => format!("c08 op get k={}", k),
            9 if rng.chance(1, 2) => {
                // multi-key ranged get: 2-5 requests over present AND absent keys, runs of requests for one key, in-bounds non-empty ranges
                let n = rng.range(2, 5);
                let mut parts: Vec<String> = vec![];
                let mut kk = keys[rng.below(nokeys as u64) as usize];
                for _ in 0..n {
                    if rng.chance(2, 3) { kk = keys[rng.below(nokeys as u64) as usize]; }
                    let c = *lens.get(kk).unwrap_or(&0);
                    let r = if c == 0 { if rng.chance(1, 2) { "f0:1".to_string() } else { "s1".to_string() } } else {
                        match rng.below(3) { 0 => { let o = rng.below(c); format!("f{}:{}", o, rng.range(1, c - o)) } 1 => format!("f{}:", rng.below(c)), _ => format!("s{}", rng.range(1, c)) } };
                    // (a present key whose value is empty has no in-bounds non-empty range: skip it)
                    if c == 0 && lens.contains_key(kk) { continue; }
                    parts.push(format!("{}@{}", kk, r));
                }
                if parts.is_empty() { format!("c08 op get k={}", k) } else { format!("c08 op getpm kr={}", parts.join(";")) }
            }
            10 if cur > 0 && rng.chance(1, 3) => {
                let pos = rng.below(cur + 1);
                format!("c08 op vio k={} pos={} len={}", k, pos, rng.range(1, cur - pos + 3))
            }
            9 | 10 | 11 => {
                let n = rng.range(1, 3);
                let mut rs: Vec<String> = (0..n).map(|_| gen_range(rng, cur, true)).collect();
                if !allow_empty { rs.retain(|r| !(r.ends_with(":0") || r == "s0" || r == &format!("f{}:", cur))); if rs.is_empty() { rs.push(format!("f0:{}", cur.max(1))); } }
                // ranges far beyond any value (what a corrupted offset/length table asks for): an error or the truncated
                // slice, never a crash (2^63 does not fit a signed seek offset, 2^64-9 does not fit an allocation)
                if rng.chance(1, 8) { rs.push(rng.pick(&["f9223372036854775808:", "s9223372036854775809", "f0:18446744073709551607", "f18446744073709551615:1", "s18446744073709551615", "f1:9223372036854775807", "f4611686018427387904:4611686018427387904"]).to_string()); }
                format!("c08 op getp k={} r={}", k, rs.join(","))
            }
            12 => format!("c08 op sizep p={}", p),
            13 => "c08 op list".to_string(),
            14 => format!("c08 op listp p={}", p),
            _ => format!("c08 op listd p={}", p),
        };
        out.push(line);
    }
    out.push(gen_setp_interleaved(rng, keys, nokeys.min(4), allow_empty, &mut lens));
    for k in keys.iter().take(nokeys.min(4)) { out.push(format!("c08 op get k={}", k)); }
    out.push("c08 op list".to_string());
}

pub fn generate(tier: &str, seed: u64) -> Vec<String> {
    if tier == "fs" { return generate_fs(seed); }
    let mut rng = Rng::new(seed);
    let thorough = tier == "thorough";
    let mut out = vec![];
    let kinds: [(&str, usize); 11] = [("memory", 120), ("fs", 30), ("fsdio", 12), ("usagelog", 15), ("perf", 15), ("os_mem", 25), ("os_fs", 12), ("od_mem", 25), ("od_fs", 12), ("aod_mem", 15), ("zip", 12)];
    for (kind, n) in kinds {
        let n = if thorough { n * 8 } else { n };
        for _ in 0..n {
            let nops = if thorough && rng.chance(1, 10) { 200 } else { rng.range(4, 30) as usize };
            gen_case(&mut rng, kind, nops, &mut out);
        }
        if kind == "fs" || kind == "fsdio" {
            gen_fs_extra(&mut rng, kind, if thorough { 40 } else { 4 }, &mut out);
        }
    }
    // the generic asynchronous read-modify-write over a store whose futures suspend (`lat<seed>`: a new latency seed
    // per case). (`aod_fs`, the asynchronous opendal store over a real file system, exists as a kind but is not
    // generated: its outcomes depend on the timing of the blocking thread pool.)
    let mut rng2 = Rng::new(seed ^ 0xC08_A2);
    for i in 0..(if thorough { 800 } else { 100 }) {
        let nops = if thorough && rng2.chance(1, 10) { 200 } else { rng2.range(4, 30) as usize };
        let kind = format!("lat{}", (seed.wrapping_mul(131) + i as u64 * 7 + rng2.below(5)) % 10000);
        gen_case(&mut rng2, &kind, nops, &mut out);
    }
    out
}

/// values whose lengths sit on and around the page size (direct I/O pads to whole pages and trims afterwards): growing and
/// SHRINKING full rewrites and partial writes, size / suffix reads / whole reads after each
pub fn gen_case_pages(rng: &mut Rng, kind: &str, out: &mut Vec<String>) {
    out.push(format!("c08 cfg store={}", kind));
    let keys = ["a/c/0", "b"];
    let lens = [0usize, 1, 4095, 4096, 4097, 8192, 8193, 12288];
    for _ in 0..rng.range(6, 10) {
        let k = *rng.pick(&keys);
        if rng.chance(1, 5) {
            let off = *rng.pick(&[0u64, 4095, 4096, 8192]);
            let ln = *rng.pick(&[1usize, 4096, 4097]);
            out.push(format!("c08 op setp kov={}@{}={}", k, off, hex(&rng.bytes(ln))));
        } else {
            let n = *rng.pick(&lens);
            // a recognisable value: its own length in every byte position modulo 251, so that a stale tail is visible
            let v: Vec<u8> = (0..n).map(|i| ((i + n) % 251) as u8).collect();
            out.push(format!("c08 op set k={} v={}", k, hex(&v)));
        }
        out.push(format!("c08 op size k={}", k));
        out.push(format!("c08 op getp k={} r=s3,f4094:4", k));
        if rng.chance(1, 3) { out.push(format!("c08 op get k={}", k)); }
    }
    out.push("c08 op sizep p=~".to_string());
    for k in keys { out.push(format!("c08 op get k={}", k)); }
}

/// extra cases for the filesystem kinds: emptied nested directories and clashing key sets
pub fn gen_fs_extra(rng: &mut Rng, kind: &str, n: usize, out: &mut Vec<String>) {
    // (own stream) page-sized values
    let mut rp = Rng::new(0xC08_9A6E ^ n as u64 ^ (kind.len() as u64) << 8);
    for _ in 0..(if n > 10 { 12 } else { 3 }) { gen_case_pages(&mut rp, kind, out); }
    for i in 0..n {
        if i % 4 == 0 { gen_case_emptied(rng, kind, out); }
        let nops = rng.range(6, 40) as usize;
        gen_case_univ(rng, kind, nops, &DEEP_KEYS, &DEEP_PREFIXES, true, out);
        let nops = rng.range(6, 40) as usize;
        gen_case_univ(rng, kind, nops, &CLASH_KEYS, &CLASH_PREFIXES, false, out);
    }
}

/// `--tier fs`: only the filesystem kinds (standard, emptied-directories and clashing universes)
pub fn generate_fs(seed: u64) -> Vec<String> {
    let mut rng = Rng::new(seed);
    let mut out = vec![];
    for kind in ["fs", "fsdio"] {
        for _ in 0..30 {
            let nops = rng.range(4, 30) as usize;
            gen_case(&mut rng, kind, nops, &mut out);
        }
        gen_fs_extra(&mut rng, kind, 40, &mut out);
    }
    out
}
