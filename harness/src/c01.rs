//! C01 (+C04 observables): array write/erase histories followed by reads through every route.
use crate::arr::*;
use crate::util::*;

pub fn generate(tier: &str, seed: u64) -> Vec<String> {
    let mut rng = Rng::new(seed);
    let thorough = tier == "thorough";
    let ncfg = if thorough { 6000 } else { 500 };
    let stores = ["memory", "memory", "memory", "memory", "fs", "os_mem", "od_mem", "usagelog"];
    let mut out = vec![];
    for k in 0..ncfg {
        let cfg = gen_cfg(&mut rng, if k % 3 == 0 { Some(true) } else { None });
        let store = if k % 7 == 0 { *rng.pick(&stores) } else { "memory" };
        // empty values are outside the contract of the third-party back ends
        let empty = rng.chance(1, 4);
        out.push(cfg.cfg_line("c01", store, empty, false, ""));
        let nops = if thorough { rng.range(1, 40) } else { rng.range(1, 12) };
        for _ in 0..nops {
            out.push(format!("c01 {}", gen_write_op(&mut rng, &cfg)));
            if rng.chance(1, 3) { out.push(format!("c01 {}", gen_read_op(&mut rng, &cfg))); }
            if rng.chance(1, 5) { out.push("c01 op keys".to_string()); }
        }
        gen_full_reads(&mut rng, &cfg, &mut out, "c01");
        out.push("c01 op reopen".to_string());
        gen_full_reads(&mut rng, &cfg, &mut out, "c01");
    }
    // (own stream) the write options are part of "every history": the partial-encoding write strategy on general
    // configurations, and on chains with TWO array->array codecs (each stage must read what the next one stored)
    let mut r2 = Rng::new(seed ^ 0xC01_9E);
    for k in 0..(if thorough { 600 } else { 60 }) {
        let cfg = if k % 2 == 0 { gen_two_a2a_cfg(&mut r2) } else { gen_cfg(&mut r2, if k % 4 == 1 { Some(true) } else { None }) };
        if cfg.shape.is_empty() { continue; }
        out.push(cfg.cfg_line("c01", "memory", false, true, ""));
        out.push(format!("c01 op store_array_subset r={}+{} data={}", nl(&vec![0; cfg.shape.len()]), nl(&cfg.shape), gen_data(&mut r2, &cfg, cfg.shape.iter().product())));
        for _ in 0..r2.range(2, 8) {
            out.push(format!("c01 {}", gen_write_op(&mut r2, &cfg)));
            if r2.chance(1, 2) { out.push(format!("c01 {}", gen_read_op(&mut r2, &cfg))); }
        }
        gen_full_reads(&mut r2, &cfg, &mut out, "c01");
        out.push("c01 op reopen".to_string());
        gen_full_reads(&mut r2, &cfg, &mut out, "c01");
    }
    out
}

/// C04: elision. Same operations as C01, fill-heavy data (half of the writes are entirely fill, the rest mostly fill,
/// repeated-fill strings, -0.0 / NaN payload neighbours), elision on and off, key listing after every operation.
/// C04 through the ASYNC API: a third of the fill-heavy cases of `generate_c04` (those without partial encoding, which is a
/// synchronous-only write strategy) as `c07` lines - every request is executed through the sync and the async methods on
/// twin stores, key listings included (`store_empty_chunks` on in a quarter of the cases)
pub fn generate_c04a(tier: &str, seed: u64) -> Vec<String> {
    let lines = generate_c04(tier, seed ^ 0xA5);
    let allowed = ["store_chunk", "store_chunks", "store_chunk_subset", "store_array_subset", "erase_chunk", "erase_chunks", "keys",
        "retrieve_chunk", "retrieve_chunks", "retrieve_chunk_subset", "retrieve_array_subset", "retrieve_chunk_if_exists"];
    let mut cases: Vec<Vec<String>> = vec![];
    for l in lines { if l.contains(" cfg ") { cases.push(vec![]); } if let Some(c) = cases.last_mut() { c.push(l); } }
    let mut out = vec![];
    for (i, c) in cases.iter().enumerate() {
        if i % 3 != 0 || c[0].contains(" penc=1 ") { continue; }
        if !c[1..].iter().all(|l| { let v = l.split(' ').nth(2).unwrap_or(""); l.starts_with("c04 op ") && allowed.contains(&v) }) { continue; }
        for l in c { out.push(format!("c07{}", &l[3..])); }
    }
    out
}

pub fn generate_c04(tier: &str, seed: u64) -> Vec<String> {
    let mut rng = Rng::new(seed ^ 0xC04);
    let thorough = tier == "thorough";
    let ncfg = if thorough { 4000 } else { 350 };
    let mut out = vec![];
    for k in 0..ncfg {
        let mut cfg = gen_cfg(&mut rng, if k % 3 == 0 { Some(true) } else { None });
        // prefer the fills that are easy to confuse: non-zero, NaN, -0.0, non-empty strings
        if cfg.dtype.fills.len() > 1 && rng.chance(2, 3) { cfg.fill = cfg.dtype.fills[rng.range(1, cfg.dtype.fills.len() as u64 - 1) as usize].clone(); }
        let empty = k % 4 == 3;
        // the partial-encoding write strategy decides about elision on its own code path (every fifth case; with elision on,
        // the stored keys are those of a full rewrite)
        let penc = !empty && k % 5 == 2;
        out.push(cfg.cfg_line("c04", "memory", empty, penc, ""));
        let nops = if thorough { rng.range(2, 24) } else { rng.range(2, 10) };
        for _ in 0..nops {
            let mut op = gen_write_op(&mut rng, &cfg);
            if rng.chance(1, 2) {
                // rewrite the data to be entirely fill / almost entirely fill
                if let Some(p) = op.find(" data=") {
                    let n = if &op[p + 6..] == "~" { 0 } else { op[p + 6..].split('.').count() };
                    let mut xs: Vec<Vec<u8>> = vec![cfg.fill.1.clone(); n];
                    if n > 0 && rng.chance(1, 2) {
                        let i = rng.below(n as u64) as usize;
                        xs[i] = near_fill(&mut rng, &cfg);
                    }
                    op = format!("{} data={}", &op[..p], show_elems(&xs));
                }
            }
            out.push(format!("c04 {}", op));
            out.push("c04 op keys".to_string());
        }
        gen_full_reads(&mut rng, &cfg, &mut out, "c04");
    }
    // (own stream) partial encoding, unsharded chains: a region written with data and then written back to the fill value makes
    // the chunk all fill again - its key must disappear and it must read as fill (the default partial encoders decide this)
    {
        let mut r3 = Rng::new(seed ^ 0xC04_B7);
        let dts = dtypes();
        for k in 0..(if thorough { 200 } else { 24 }) {
            let dt = dts.iter().filter(|d| d.es.is_some()).nth(r3.below(10) as usize).unwrap().clone();
            let es = dt.es.unwrap();
            let fill = r3.pick(&dt.fills).clone();
            let bytes = if es == 1 { "{\"name\":\"bytes\"}".to_string() } else { format!("{{\"name\":\"bytes\",\"configuration\":{{\"endian\":\"{}\"}}}}", if k % 2 == 0 { "little" } else { "big" }) };
            let (json, desc) = match k % 4 {
                0 => (format!("[{}]", bytes), "bytes".to_string()),
                1 => (format!("[{},{{\"name\":\"gzip\",\"configuration\":{{\"level\":1}}}}]", bytes), "bytes|gzip".to_string()),
                2 => (format!("[{{\"name\":\"transpose\",\"configuration\":{{\"order\":[1,0]}}}},{}]", bytes), "transpose10|bytes".to_string()),
                _ => (format!("[{},{{\"name\":\"crc32c\"}}]", bytes), "bytes|crc32c".to_string()),
            };
            let cfg = Cfg { dtype: dt.clone(), fill: fill.clone(), shape: vec![4, 3], grid: vec![(true, vec![2]), (true, vec![3])], regular_impl: true,
                keys: ("default".into(), "/".into()), codecs_json: json, chain_desc: desc, sharded: false, path: "/bf".into(), eff_inner: None };
            out.push(cfg.cfg_line("c04", "memory", false, true, ""));
            let nonfill = |r: &mut Rng| { let mut e = gen_elem(r, &cfg); if e == cfg.fill.1 { e[0] ^= 1; } e };
            for c in ["0,0", "1,0"] {
                let d: Vec<Vec<u8>> = (0..2).map(|_| nonfill(&mut r3)).collect();
                out.push(format!("c04 op store_chunk_subset c={} r=0,1+1,2 data={}", c, show_elems(&d)));
                out.push("c04 op keys".into());
                out.push(format!("c04 op store_chunk_subset c={} r=0,1+1,2 data={}", c, show_elems(&vec![cfg.fill.1.clone(); 2])));
                out.push("c04 op keys".into());
                out.push(format!("c04 op retrieve_chunk c={}", c));
            }
            // the same through an array-subset write that covers parts of both chunks
            let d: Vec<Vec<u8>> = (0..6).map(|_| nonfill(&mut r3)).collect();
            out.push(format!("c04 op store_array_subset r=1,0+2,3 data={}", show_elems(&d)));
            out.push("c04 op keys".into());
            out.push(format!("c04 op store_array_subset r=1,0+2,3 data={}", show_elems(&vec![cfg.fill.1.clone(); 6])));
            out.push("c04 op keys".into());
            out.push("c04 op retrieve_array_subset r=0,0+4,3".into());
        }
    }
    // a value-mapping array->array codec (the ENCODED fill value differs from the fill value), partial encoding: chunks made
    // entirely of the value whose encoding is the fill value, and of the encoded fill value itself, are NOT fill chunks
    { let mut r2 = Rng::new(seed ^ 0xC04_F5); crate::c05::value_mapping_family(&mut r2, &mut out, "c04"); }
    out
}

/// an element that is easily confused with the fill value
fn near_fill(rng: &mut Rng, cfg: &Cfg) -> Vec<u8> {
    let f = &cfg.fill.1;
    match cfg.dtype.es {
        None => match rng.below(4) {
            0 => f.repeat(2),
            1 => { let mut x = f.clone(); x.push(b'a'); x }
            2 => if f.is_empty() { vec![b'a'] } else { f[..f.len() - 1].to_vec() },
            _ => vec![],
        },
        Some(es) => {
            if cfg.dtype.name == "bool" { return vec![1 - f[0].min(1)]; }
            let mut x = f.clone();
            // (behind the lossless fixedscaleoffset configuration `fso1` the one value it cannot carry, i32::MIN, is avoided)
            let lo = if cfg.chain_desc.contains("fso1") { 1 } else { 0 };
            match lo + rng.below(3 - lo) {
                0 => { x[es - 1] ^= 0x80; x }   // sign bit: -0.0 vs 0.0, NaN sign
                1 => { x[0] ^= 0x01; x }         // lowest bit: NaN payload, subnormal
                _ => { let i = rng.below(es as u64) as usize; x[i] = x[i].wrapping_add(1); x }
            }
        }
    }
}
