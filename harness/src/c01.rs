//! C01 (+C04 observables): array write/erase histories followed by reads through every route.
use crate::arr::*;
use crate::util::*;

pub fn generate(tier: &str, seed: u64) -> Vec<String> {
    let mut rng = Rng::new(seed);
    let thorough = tier == "thorough";
    let ncfg = if thorough { 6000 } else { 500 };
    let stores = ["memory", "memory", "memory", "memory", "fs", "os_mem", "od_mem", "usagelog"];
    let mut out = vec![];
    for k in 0..ncfg {
        let cfg = gen_cfg(&mut rng, if k % 3 == 0 { Some(true) } else { None });
        let store = if k % 7 == 0 { *rng.pick(&stores) } else { "memory" };
        // empty values are outside the contract of the third-party back ends
        let empty = rng.chance(1, 4);
        out.push(cfg.cfg_line("c01", store, empty, false, ""));
        let nops = if thorough { rng.range(1, 40) } else { rng.range(1, 12) };
        for _ in 0..nops {
            out.push(format!("c01 {}", gen_write_op(&mut rng, &cfg)));
            if rng.chance(1, 3) { out.push(format!("c01 {}", gen_read_op(&mut rng, &cfg))); }
            if rng.chance(1, 5) { out.push("c01 op keys".to_string()); }
        }
        gen_full_reads(&mut rng, &cfg, &mut out, "c01");
        out.push("c01 op reopen".to_string());
        gen_full_reads(&mut rng, &cfg, &mut out, "c01");
    }
    // (own stream) the write options are part of "every history": the partial-encoding write strategy on general
    // configurations, and on chains with TWO array->array codecs (each stage must read what the next one stored)
    let mut r2 = Rng::new(seed ^ 0xC01_9E);
    for k in 0..(if thorough { 600 } else { 60 }) {
        let cfg = if k % 2 == 0 { gen_two_a2a_cfg(&mut r2) } else { gen_cfg(&mut r2, if k % 4 == 1 { Some(true) } else { None }) };
        if cfg.shape.is_empty() { continue; }
        out.push(cfg.cfg_line("c01", "memory", false, true, ""));
        out.push(format!("c01 op store_array_subset r={}+{} data={}", nl(&vec![0; cfg.shape.len()]), nl(&cfg.shape), gen_data(&mut r2, &cfg, cfg.shape.iter().product())));
        for _ in 0..r2.range(2, 8) {
            out.push(format!("c01 {}", gen_write_op(&mut r2, &cfg)));
            if r2.chance(1, 2) { out.push(format!("c01 {}", gen_read_op(&mut r2, &cfg))); }
        }
        gen_full_reads(&mut r2, &cfg, &mut out, "c01");
        out.push("c01 op reopen".to_string());
        gen_full_reads(&mut r2, &cfg, &mut out, "c01");
    }
    out
}

/// C04: elision. Same operations as C01, fill-heavy data (half of the writes are entirely fill, the rest mostly fill,
/// repeated-fill strings, -0.0 / NaN payload neighbours), elision on and off, key listing after every operation.
pub fn generate_c04(tier: &str, seed: u64) -> Vec<String> {
    let mut rng = Rng::new(seed ^ 0xC04);
    let thorough = tier == "thorough";
    let ncfg = if thorough { 4000 } else { 350 };
    let mut out = vec![];
    for k in 0..ncfg {
        let mut cfg = gen_cfg(&mut rng, if k % 3 == 0 { Some(true) } else { None });
        // prefer the fills that are easy to confuse: non-zero, NaN, -0.0, non-empty strings
        if cfg.dtype.fills.len() > 1 && rng.chance(2, 3) { cfg.fill = cfg.dtype.fills[rng.range(1, cfg.dtype.fills.len() as u64 - 1) as usize].clone(); }
        let empty = k % 4 == 3;
        // the partial-encoding write strategy decides about elision on its own code path (every fifth case; with elision on,
        // the stored keys are those of a full rewrite)
        let penc = !empty && k % 5 == 2;
        out.push(cfg.cfg_line("c04", "memory", empty, penc, ""));
        let nops = if thorough { rng.range(2, 24) } else { rng.range(2, 10) };
        for _ in 0..nops {
            let mut op = gen_write_op(&mut rng, &cfg);
            if rng.chance(1, 2) {
                // rewrite the data to be entirely fill / almost entirely fill
                if let Some(p) = op.find(" data=") {
                    let n = if &op[p + 6..] == "~" { 0 } else { op[p + 6..].split('.').count() };
                    let mut xs: Vec<Vec<u8>> = vec![cfg.fill.1.clone(); n];
                    if n > 0 && rng.chance(1, 2) {
                        let i = rng.below(n as u64) as usize;
                        xs[i] = near_fill(&mut rng, &cfg);
                    }
                    op = format!("{} data={}", &op[..p], show_elems(&xs));
                }
            }
            out.push(format!("c04 {}", op));
            out.push("c04 op keys".to_string());
        }
        gen_full_reads(&mut rng, &cfg, &mut out, "c04");
    }
    // a value-mapping array->array codec (the ENCODED fill value differs from the fill value), partial encoding: chunks made
    // entirely of the value whose encoding is the fill value, and of the encoded fill value itself, are NOT fill chunks
    { let mut r2 = Rng::new(seed ^ 0xC04_F5); crate::c05::value_mapping_family(&mut r2, &mut out, "c04"); }
    out
}

/// an element that is easily confused with the fill value
fn near_fill(rng: &mut Rng, cfg: &Cfg) -> Vec<u8> {
    let f = &cfg.fill.1;
    match cfg.dtype.es {
        None => match rng.below(4) {
            0 => f.repeat(2),
            1 => { let mut x = f.clone(); x.push(b'a'); x }
            2 => if f.is_empty() { vec![b'a'] } else { f[..f.len() - 1].to_vec() },
            _ => vec![],
        },
        Some(es) => {
            if cfg.dtype.name == "bool" { return vec![1 - f[0].min(1)]; }
            let mut x = f.clone();
            // (behind the lossless fixedscaleoffset configuration `fso1` the one value it cannot carry, i32::MIN, is avoided)
            let lo = if cfg.chain_desc.contains("fso1") { 1 } else { 0 };
            match lo + rng.below(3 - lo) {
                0 => { x[es - 1] ^= 0x80; x }   // sign bit: -0.0 vs 0.0, NaN sign
                1 => { x[0] ^= 0x01; x }         // lowest bit: NaN payload, subnormal
                _ => { let i = rng.below(es as u64) as usize; x[i] = x[i].wrapping_add(1); x }
            }
        }
    }
}
