//! C01 (+C04 observables): array write/erase histories followed by reads through every route.
use crate::arr::*;
use crate::util::*;

pub fn generate(tier: &str, seed: u64) -> Vec<String> {
    let mut rng = Rng::new(seed);
    let thorough = tier == "thorough";
    let ncfg = if thorough { 6000 } else { 500 };
    let stores = ["memory", "memory", "memory", "memory", "fs", "os_mem", "od_mem", "usagelog"];
    let mut out = vec![];
    for k in 0..ncfg {
        let cfg = gen_cfg(&mut rng, if k % 3 == 0 { Some(true) } else { None });
        let store = if k % 7 == 0 { *rng.pick(&stores) } else { "memory" };
        // empty values are outside the contract of the third-party back ends
        let empty = rng.chance(1, 4);
        out.push(cfg.cfg_line("c01", store, empty, false, ""));
        let nops = if thorough { rng.range(1, 40) } else { rng.range(1, 12) };
        for _ in 0..nops {
            out.push(format!("c01 {}", gen_write_op(&mut rng, &cfg)));
            if rng.chance(1, 3) { out.push(format!("c01 {}", gen_read_op(&mut rng, &cfg))); }
            if rng.chance(1, 5) { out.push("c01 op keys".to_string()); }
        }
        gen_full_reads(&mut rng, &cfg, &mut out, "c01");
        out.push("c01 op reopen".to_string());
        gen_full_reads(&mut rng, &cfg, &mut out, "c01");
    }
    out
}
