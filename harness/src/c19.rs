//! C19: no operation acquires the global configuration while already holding it.
//! Every operation runs on a single logical call stack (rayon pool of one thread) with hook H3 recording, for each
//! acquisition, whether the lock was completely free.
use crate::arr::*;
use crate::hooks;
use crate::util::*;
use std::collections::BTreeMap;
use std::sync::Arc;
use zarrs::array::codec::{CodecChain, CodecOptions};
use zarrs::array::{Array, ArrayMetadataOptions};
use zarrs::group::{Group, GroupBuilder, GroupMetadataOptions};
use zarrs::node::Node;
use zarrs::storage::{ReadableWritableListableStorageTraits, WritableStorageTraits, StoreKey};
use crate::c08::{make_store, DynStore};

fn pool1() -> rayon::ThreadPool { rayon::ThreadPoolBuilder::new().num_threads(1).build().unwrap() }

pub const V2_DOCS: [(&str, &str); 3] = [
    ("v2_plain", r#"{"zarr_format":2,"shape":[4,4],"chunks":[2,2],"dtype":"<f8","compressor":null,"fill_value":0.0,"order":"C","filters":null}"#),
    ("v2_zlib_F", r#"{"zarr_format":2,"shape":[4,4],"chunks":[2,2],"dtype":"<i4","compressor":{"id":"zlib","level":1},"fill_value":0,"order":"F","filters":[]}"#),
    ("v2_fso", r#"{"zarr_format":2,"shape":[4,4],"chunks":[2,2],"dtype":"<f8","compressor":{"id":"zstd","level":1},"fill_value":0.0,"order":"C","filters":[{"id":"fixedscaleoffset","offset":0,"scale":10,"dtype":"<f8","astype":"<i4"}]}"#),
];
pub const V3_DOCS: [(&str, &str); 4] = [
    ("v3_fso", r#"{"zarr_format":3,"node_type":"array","shape":[4,4],"data_type":"float64","chunk_grid":{"name":"regular","configuration":{"chunk_shape":[2,2]}},"chunk_key_encoding":{"name":"default","configuration":{"separator":"/"}},"fill_value":0.0,"codecs":[{"name":"numcodecs.fixedscaleoffset","configuration":{"offset":0,"scale":10,"dtype":"f8","astype":"i4"}},{"name":"bytes","configuration":{"endian":"little"}}]}"#),
    ("v3_nested_shard", r#"{"zarr_format":3,"node_type":"array","shape":[8,8],"data_type":"uint16","chunk_grid":{"name":"regular","configuration":{"chunk_shape":[4,4]}},"chunk_key_encoding":{"name":"default","configuration":{"separator":"/"}},"fill_value":0,"codecs":[{"name":"sharding_indexed","configuration":{"chunk_shape":[2,2],"codecs":[{"name":"sharding_indexed","configuration":{"chunk_shape":[1,1],"codecs":[{"name":"bytes","configuration":{"endian":"little"}},{"name":"gzip","configuration":{"level":1}}],"index_codecs":[{"name":"bytes","configuration":{"endian":"little"}},{"name":"crc32c"}],"index_location":"end"}}],"index_codecs":[{"name":"bytes","configuration":{"endian":"little"}},{"name":"crc32c"}],"index_location":"start"}}]}"#),
    // value-mapping array->array codecs INSIDE a shard (their default `encoded_fill_value` builds `CodecOptions::default()`,
    // i.e. reads the configuration, while the shard codec computes the concurrency of its inner chain)
    ("v3_shard_fso", r#"{"zarr_format":3,"node_type":"array","shape":[8,8],"data_type":"float32","chunk_grid":{"name":"regular","configuration":{"chunk_shape":[4,4]}},"chunk_key_encoding":{"name":"default","configuration":{"separator":"/"}},"fill_value":0.0,"codecs":[{"name":"sharding_indexed","configuration":{"chunk_shape":[2,2],"codecs":[{"name":"numcodecs.fixedscaleoffset","configuration":{"offset":0,"scale":1,"dtype":"<f4"}},{"name":"bytes","configuration":{"endian":"little"}}],"index_codecs":[{"name":"bytes","configuration":{"endian":"little"}},{"name":"crc32c"}],"index_location":"end"}}]}"#),
    ("v3_shard_bitround", r#"{"zarr_format":3,"node_type":"array","shape":[8,8],"data_type":"float32","chunk_grid":{"name":"regular","configuration":{"chunk_shape":[4,4]}},"chunk_key_encoding":{"name":"default","configuration":{"separator":"/"}},"fill_value":0.0,"codecs":[{"name":"sharding_indexed","configuration":{"chunk_shape":[2,2],"codecs":[{"name":"bitround","configuration":{"keepbits":10}},{"name":"bytes","configuration":{"endian":"little"}}],"index_codecs":[{"name":"bytes","configuration":{"endian":"little"}}],"index_location":"start"}}]}"#),
];

pub struct C19Ctx {
    pub store: crate::c08::StoreCtx,
    pub path: String,
    pub meta_v2: bool,
    pub es: Option<usize>,
}

pub fn open_cfg(m: &BTreeMap<String, String>) -> Result<C19Ctx, String> {
    let store = make_store("memory");
    let path = m["path"].clone();
    let v2 = m.get("v2").map(|s| s == "1").unwrap_or(false);
    let key = if v2 { if path == "/" { ".zarray".to_string() } else { format!("{}/.zarray", &path[1..]) } } else { meta_key(&path).as_str().to_string() };
    store.store.set(&StoreKey::new(key).unwrap(), unhex(&m["meta"]).into()).map_err(|e| e.to_string())?;
    let es = if m["es"] == "v" { None } else { Some(m["es"].parse().unwrap()) };
    Ok(C19Ctx { store, path, meta_v2: v2, es })
}

/// one entry per acquisition of the configuration lock: 1 = the lock was completely free, 0 = a guard was alive
fn probes(events: &[hooks::Event]) -> Vec<u64> {
    events.iter().filter(|e| e.0 == "config.read" || e.0 == "config.write").map(|e| e.1.first().copied().unwrap_or(0)).collect()
}

/// run `f` on a single logical call stack with probe recording; outcome `val n=<acquisitions> held=<not free> res=<ok|err>`
fn probe_run<F: FnOnce() -> bool + Send>(f: F) -> String {
    let pool = pool1();
    hooks::start_recording(false);
    let r = std::panic::catch_unwind(std::panic::AssertUnwindSafe(|| pool.install(f)));
    let ev = hooks::stop_recording();
    let p = probes(&ev);
    match r {
        Ok(ok) => format!("val probes={} res={}", nl(&p), if ok { "ok" } else { "err" }),
        Err(_) => format!("val probes={} res=panic", nl(&p)),
    }
}

pub fn exec_op(ctx: &C19Ctx, verb: &str, m: &BTreeMap<String, String>) -> String {
    let s: DynStore = ctx.store.store.clone();
    let path = ctx.path.clone();
    let es = ctx.es;
    let open = || -> Option<Array<dyn ReadableWritableListableStorageTraits>> { Array::open(s.clone(), &path).ok() };
    match verb {
        "array_open" => probe_run(|| match Array::open(s.clone(), &path) { Ok(_) => true, Err(e) => { if std::env::var("VERIF_ERR_MSG").is_ok() { eprintln!("ERR: {}", e); } false } }),
        "array_metadata_opt" => { let a = match open() { Some(a) => a, None => return "skip".into() }; probe_run(move || { let _ = a.metadata_opt(&ArrayMetadataOptions::default()); true }) }
        "array_store_metadata" => { let a = match open() { Some(a) => a, None => return "skip".into() }; probe_run(move || a.store_metadata().is_ok()) }
        // every combination of the documented conversion options (metadata version, alias names, `_zarrs`, codec options)
        "array_metadata_variants" => {
            let a = match open() { Some(a) => a, None => return "skip".into() };
            probe_run(move || {
                let mut ok = true;
                for cv in [zarrs::config::MetadataConvertVersion::Default, zarrs::config::MetadataConvertVersion::V3] {
                    for alias in [false, true] { for zm in [false, true] {
                        let mut o = ArrayMetadataOptions::default().with_metadata_convert_version(cv).with_include_zarrs_metadata(zm);
                        o.set_convert_aliased_extension_names(alias);
                        let _ = a.metadata_opt(&o);
                        ok &= a.store_metadata_opt(&o).is_ok();
                    } }
                }
                ok
            })
        }
        "array_read_variants" => {
            use zarrs::array::{ArrayChunkCacheExt, ArrayShardedExt, ArrayShardedReadableExt, ArrayShardedReadableExtCache, ChunkCacheDecodedLruChunkLimit, ChunkCacheEncodedLruSizeLimit};
            let a = match open() { Some(a) => a, None => return "skip".into() };
            probe_run(move || {
                let o = CodecOptions::default();
                let c0: Vec<u64> = vec![0; a.dimensionality()];
                let all = a.subset_all();
                let one = zarrs::array_subset::ArraySubset::new_with_shape(vec![1; a.dimensionality()]);
                let dc = ChunkCacheDecodedLruChunkLimit::new(2);
                let ec = ChunkCacheEncodedLruSizeLimit::new(1 << 16);
                let _ = a.retrieve_array_subset_opt_cached(&dc, &all, &o);
                let _ = a.retrieve_chunk_opt_cached(&ec, &c0, &o);
                let _ = a.retrieve_chunk_subset_opt_cached(&dc, &c0, &one, &o);
                let sc = ArrayShardedReadableExtCache::new(&a);
                let _ = a.is_sharded(); let _ = a.effective_inner_chunk_shape(); let _ = a.inner_chunk_grid_shape();
                let _ = a.retrieve_array_subset_sharded_opt(&sc, &all, &o);
                let _ = a.retrieve_inner_chunk_opt(&sc, &c0, &o);
                let _ = a.retrieve_chunks(&zarrs::array_subset::ArraySubset::new_with_shape(vec![1; a.dimensionality()]));
                let _ = a.retrieve_chunk_if_exists(&c0);
                let _ = a.retrieve_encoded_chunk(&c0);
                let _ = a.chunk_key(&c0);
                true
            })
        }
        "array_builder" => { let a = match open() { Some(a) => a, None => return "skip".into() }; let s2 = s.clone(); probe_run(move || a.builder().build(s2, "/rebuilt").is_ok()) }
        "array_to_v3" => { let a = match open() { Some(a) => a, None => return "skip".into() }; probe_run(move || a.to_v3().is_ok()) }
        "codec_chain_from_metadata" => {
            let a = match open() { Some(a) => a, None => return "skip".into() };
            let md = a.codecs().create_metadatas();
            probe_run(move || CodecChain::from_metadata(&md).is_ok())
        }
        "codec_chain_new" => {
            // a chain built by hand from codec objects (`CodecChain::new` names each codec through the alias table of the
            // configuration), and rebuilt with the names it has (`new_named`)
            let a = match open() { Some(a) => a, None => return "skip".into() };
            let chain = a.codecs();
            let a2a: Vec<_> = chain.array_to_array_codecs().iter().map(|c| c.codec().clone()).collect();
            let a2b = chain.array_to_bytes_codec().codec().clone();
            let b2b: Vec<_> = chain.bytes_to_bytes_codecs().iter().map(|c| c.codec().clone()).collect();
            probe_run(move || { let c = CodecChain::new(a2a, a2b, b2b); let _ = c.create_metadatas(); true })
        }
        "options_default" => probe_run(|| { let _ = CodecOptions::default(); let _ = ArrayMetadataOptions::default(); let _ = GroupMetadataOptions::default(); true }),
        "array_write_read" => {
            let a = match open() { Some(a) => a, None => return "skip".into() };
            let data = parse_elems(&m["data"]);
            let r = parse_subset(&m["r"]);
            probe_run(move || {
                let w = a.store_array_subset(&r, to_array_bytes(es, &data)).is_ok();
                let rd = a.retrieve_array_subset(&r).is_ok();
                let c0: Vec<u64> = vec![0; a.dimensionality()];
                let _ = a.retrieve_chunk(&c0);
                let _ = a.retrieve_chunk_subset(&c0, &zarrs::array_subset::ArraySubset::new_with_shape(vec![1; a.dimensionality()]));
                let _ = a.partial_decoder(&c0).map(|pd| pd.partial_decode(&[zarrs::array_subset::ArraySubset::new_with_shape(vec![1; a.dimensionality()])], &CodecOptions::default()).is_ok());
                let _ = a.erase_chunk(&c0);
                w && rd
            })
        }
        "array_partial_encode" => {
            let a = match open() { Some(a) => a, None => return "skip".into() };
            let data = parse_elems(&m["data"]);
            let r = parse_subset(&m["r"]);
            probe_run(move || {
                let mut o = CodecOptions::default();
                o.set_experimental_partial_encoding(true);
                a.store_array_subset_opt(&r, to_array_bytes(es, &data), &o).is_ok()
            })
        }
        "array_erase_metadata" => { let a = match open() { Some(a) => a, None => return "skip".into() }; probe_run(move || a.erase_metadata().is_ok()) }
        "group_ops" => {
            let s2 = s.clone();
            probe_run(move || {
                let g = GroupBuilder::new().build(s2.clone(), "/grp").unwrap();
                let a = g.store_metadata().is_ok();
                let b = Group::open(s2.clone(), "/grp").is_ok();
                let _ = g.metadata_opt(&GroupMetadataOptions::default());
                for cv in [zarrs::config::MetadataConvertVersion::Default, zarrs::config::MetadataConvertVersion::V3] {
                    let mut go = GroupMetadataOptions::default(); go.set_metadata_convert_version(cv);
                    let _ = g.metadata_opt(&go); let _ = g.store_metadata_opt(&go);
                }
                // a Zarr V2 group converted on the way out
                let _ = s2.set(&StoreKey::new("g2/.zgroup").unwrap(), br#"{"zarr_format":2}"#.to_vec().into());
                if let Ok(g2) = Group::open(s2.clone(), "/g2") {
                    let mut go = GroupMetadataOptions::default(); go.set_metadata_convert_version(zarrs::config::MetadataConvertVersion::V3);
                    let _ = g2.metadata_opt(&go); let _ = g2.store_metadata_opt(&go); let _ = g2.to_v3();
                }
                let c = Node::open(&s2, "/").is_ok();
                let _ = g.children(true);
                let d = g.erase_metadata().is_ok();
                a && b && c && d
            })
        }
        _ => "bad-op".into(),
    }
}

pub fn generate(tier: &str, seed: u64) -> Vec<String> {
    let mut rng = Rng::new(seed);
    let thorough = tier == "thorough";
    let ncfg = if thorough { 1200 } else { 150 };
    let mut out = vec![];
    let ops = ["array_open", "array_metadata_opt", "array_store_metadata", "array_builder", "array_to_v3", "codec_chain_from_metadata",
               "codec_chain_new", "options_default", "group_ops", "array_read_variants", "array_metadata_variants"];
    // hand-written documents: V2 metadata, fixedscaleoffset, nested sharding
    for (name, doc) in V2_DOCS.iter() {
        out.push(format!("c19 cfg name={} path=/a v2=1 es={} meta={}", name, if name.contains("zlib") { 4 } else { 8 }, hex(doc.as_bytes())));
        for op in ops { out.push(format!("c19 op {}", op)); }
        out.push(format!("c19 op array_write_read r=0,0+3,3 data={}", show_elems(&vec![vec![1u8; if name.contains("zlib") { 4 } else { 8 }]; 9])));
        out.push("c19 op array_erase_metadata".into());
    }
    for (name, doc) in V3_DOCS.iter() {
        let es = if name.starts_with("v3_shard_") { 4 } else if name.contains("fso") { 8 } else { 2 };
        out.push(format!("c19 cfg name={} path=/a v2=0 es={} meta={}", name, es, hex(doc.as_bytes())));
        for op in ops { out.push(format!("c19 op {}", op)); }
        out.push(format!("c19 op array_write_read r=0,0+3,3 data={}", show_elems(&vec![vec![1u8; es]; 9])));
        // the whole array: every shard is covered completely (decoded straight into the output)
        out.push(format!("c19 op array_write_read r=0,0+8,8 data={}", show_elems(&vec![vec![1u8; es]; 64])));
        out.push(format!("c19 op array_partial_encode r=1,1+2,2 data={}", show_elems(&vec![vec![2u8; es]; 4])));
        out.push("c19 op array_erase_metadata".into());
    }
    for k in 0..ncfg {
        let cfg = gen_cfg(&mut rng, if k % 2 == 0 { Some(true) } else { None });
        out.push(format!("c19 cfg name=gen path={} v2=0 es={} chain={} meta={}", cfg.path, cfg.dtype.es.map(|e| e.to_string()).unwrap_or("v".into()), cfg.chain_desc, hex(cfg.metadata_json().as_bytes())));
        for op in ops { if rng.chance(2, 3) { out.push(format!("c19 op {}", op)); } }
        let n: Vec<u64> = cfg.shape.iter().map(|&e| rng.range(1, e)).collect();
        let st: Vec<u64> = cfg.shape.iter().zip(&n).map(|(&e, &l)| rng.below(e - l + 1)).collect();
        out.push(format!("c19 op array_write_read r={}+{} data={}", nl(&st), nl(&n), gen_data(&mut rng, &cfg, n.iter().product())));
        if rng.chance(1, 2) { out.push(format!("c19 op array_partial_encode r={}+{} data={}", nl(&st), nl(&n), gen_data(&mut rng, &cfg, n.iter().product()))); }
        out.push("c19 op array_erase_metadata".into());
    }
    out
}
