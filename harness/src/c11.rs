//! C11: chunk key encodings through `Array::chunk_key` on real arrays (root and nested paths).
use crate::util::*;
use std::sync::Arc;
use zarrs::array::chunk_key_encoding::{ChunkKeyEncoding, ChunkKeySeparator, DefaultChunkKeyEncoding, V2ChunkKeyEncoding};
use zarrs::array::{ArrayBuilder, DataType, FillValue};
use zarrs::node::{meta_key_v2_array, meta_key_v2_attributes, meta_key_v2_group, meta_key_v3, NodePath};
use zarrs::storage::store::MemoryStore;
use zarrs::storage::{StoreKey, StorePrefix};

pub fn exec(line: &str) -> String {
    let (v, m) = parse_line(line);
    let verb = v.get(1).map(|s| s.as_str()).unwrap_or("");
    guarded(|| match verb {
        "key" => {
            let sep = if m["sep"] == "/" { ChunkKeySeparator::Slash } else { ChunkKeySeparator::Dot };
            let idx = pnl(&m["idx"]);
            let rank = idx.len();
            let via_meta = m.get("via").map(|s| s == "meta").unwrap_or(false);
            let enc: ChunkKeyEncoding = if m["enc"] == "default" {
                ChunkKeyEncoding::new(DefaultChunkKeyEncoding::new(sep))
            } else {
                ChunkKeyEncoding::new(V2ChunkKeyEncoding::new(sep))
            };
            let path = &m["path"];
            let store = Arc::new(MemoryStore::new());
            let shape: Vec<u64> = vec![u64::MAX; rank];
            let chunk: Vec<u64> = vec![1; rank];
            let mut b = ArrayBuilder::new(shape, DataType::UInt8, chunk.try_into().unwrap(), FillValue::from(0u8));
            b.chunk_key_encoding(enc);
            let array = match b.build(store.clone(), path) { Ok(a) => a, Err(_) => return "err".into() };
            let array = if via_meta {
                array.store_metadata().unwrap();
                zarrs::array::Array::open(store.clone(), path).unwrap()
            } else { array };
            let key = array.chunk_key(&idx);
            let ks = key.as_str().to_string();
            let valid = StoreKey::new(ks.clone()).is_ok();
            let np = NodePath::new(path).unwrap();
            let prefix: StorePrefix = (&np).try_into().unwrap();
            let beneath = key.has_prefix(&prefix);
            let metas = [meta_key_v3(&np), meta_key_v2_array(&np), meta_key_v2_group(&np), meta_key_v2_attributes(&np)];
            let notmeta = metas.iter().all(|k| k != &key);
            let metas_s: Vec<String> = metas.iter().map(|k| k.as_str().to_string()).collect();
            format!("val key={} valid={} beneath={} notmeta={} metas={}", ks, valid, beneath, notmeta, metas_s.join(","))
        }
        "validkey" => format!("val {}", StoreKey::new(m.get("k").cloned().unwrap_or_default()).is_ok()),
        "validpath" => format!("val {}", NodePath::new(m.get("p").map(|s| s.as_str()).unwrap_or("")).is_ok()),
        _ => "bad-op".into(),
    })
}

pub fn generate(tier: &str, seed: u64) -> Vec<String> {
    let mut rng = Rng::new(seed);
    let thorough = tier == "thorough";
    let mut out = vec![];
    let mut specials: Vec<u64> = vec![0, 1, 9, 10, 11, 99, 100, 101, (1 << 32) - 1, 1 << 32, (1 << 32) + 1, 1 << 63, u64::MAX, u64::MAX - 1];
    let mut p = 1u64;
    for _ in 0..19 { p *= 10; specials.push(p - 1); specials.push(p); specials.push(p + 1); }
    let paths = ["/", "/a", "/a/b", "/group.with.dots/arr", "/c", "/0", "/c/0", "/zarr.json", "/x/.zarray", "/deep/er/and/deeper/array_1"];
    let n = if thorough { 6000 } else { 1200 };
    for k in 0..n {
        let rank = if k < 40 { k % 6 } else { rng.range(0, 5) } as usize;
        let idx: Vec<u64> = (0..rank).map(|_| if rng.chance(2, 3) { *rng.pick(&specials) } else { rng.next() >> rng.below(64) }).collect();
        let enc = if rng.chance(1, 2) { "default" } else { "v2" };
        let sep = if rng.chance(1, 2) { "/" } else { "." };
        let path = rng.pick(&paths);
        let via = if rng.chance(1, 4) { "meta" } else { "direct" };
        out.push(format!("c11 key enc={} sep={} path={} idx={} via={}", enc, sep, path, nl(&idx), via));
    }
    // exhaustive small coordinates, all four encodings, ranks 0..3
    for enc in ["default", "v2"] { for sep in ["/", "."] { for path in ["/", "/a/b"] {
        out.push(format!("c11 key enc={} sep={} path={} idx=- via=direct", enc, sep, path));
        for a in 0..12u64 {
            out.push(format!("c11 key enc={} sep={} path={} idx={} via=direct", enc, sep, path, a));
            for b in 0..12u64 {
                out.push(format!("c11 key enc={} sep={} path={} idx={},{} via=direct", enc, sep, path, a, b));
            }
        }
    } } }
    // validity predicates (malformed stream)
    let alphabet = ['a', '/', '.', 'c', '0'];
    for _ in 0..300 {
        let len = rng.range(0, 6);
        let s: String = (0..len).map(|_| *rng.pick(&alphabet)).collect();
        out.push(format!("c11 validkey k={}", s));
        out.push(format!("c11 validpath p={}", s));
    }
    out
}
