//! C11: chunk key encodings through `Array::chunk_key` on real arrays (root and nested paths).
use crate::util::*;
use std::sync::Arc;
use zarrs::array::chunk_key_encoding::{ChunkKeyEncoding, ChunkKeySeparator, DefaultChunkKeyEncoding, V2ChunkKeyEncoding};
use zarrs::array::{ArrayBuilder, DataType, FillValue};
use zarrs::node::{meta_key_v2_array, meta_key_v2_attributes, meta_key_v2_group, meta_key_v3, NodePath};
use zarrs::storage::store::MemoryStore;
use zarrs::storage::{StoreKey, StorePrefix};

pub fn exec(line: &str) -> String {
    let (v, m) = parse_line(line);
    let verb = v.get(1).map(|s| s.as_str()).unwrap_or("");
    guarded(|| match verb {
        "key" => {
            let sep = if m["sep"] == "/" { ChunkKeySeparator::Slash } else { ChunkKeySeparator::Dot };
            let idx = pnl(&m["idx"]);
            let rank = idx.len();
            let via_meta = m.get("via").map(|s| s == "meta").unwrap_or(false);
            let enc: ChunkKeyEncoding = if m["enc"] == "default" {
                ChunkKeyEncoding::new(DefaultChunkKeyEncoding::new(sep))
            } else {
                ChunkKeyEncoding::new(V2ChunkKeyEncoding::new(sep))
            };
            let path = &m["path"];
            let store = Arc::new(MemoryStore::new());
            let shape: Vec<u64> = vec![u64::MAX; rank];
            let chunk: Vec<u64> = vec![1; rank];
            let mut b = ArrayBuilder::new(shape, DataType::UInt8, chunk.try_into().unwrap(), FillValue::from(0u8));
            b.chunk_key_encoding(enc);
            let array = match b.build(store.clone(), path) { Ok(a) => a, Err(_) => return "err".into() };
            let via = m.get("via").map(|s| s.as_str()).unwrap_or("direct");
            let form = m.get("form").map(|s| s.as_str()).unwrap_or("explicit");
            let np0 = NodePath::new(path).unwrap();
            let dims = |v: &str| format!("[{}]", vec![v; rank].join(","));
            let array = if via_meta {
                array.store_metadata().unwrap();
                zarrs::array::Array::open(store.clone(), path).unwrap()
            } else if via == "v3json" {
                // metadata written by hand: the separator given, left out, or an empty configuration (then the default of
                // the encoding applies: `/` for default, `.` for v2)
                let cke = match form { "omit" => format!("{{\"name\":\"{}\"}}", m["enc"]), "empty" => format!("{{\"name\":\"{}\",\"configuration\":{{}}}}", m["enc"]),
                    // (a KNOWN encoding marked as not needing to be understood is still the array's encoding)
                    "explicit_mu" => format!("{{\"name\":\"{}\",\"configuration\":{{\"separator\":\"{}\"}},\"must_understand\":false}}", m["enc"], m["sep"]),
                    _ => format!("{{\"name\":\"{}\",\"configuration\":{{\"separator\":\"{}\"}}}}", m["enc"], m["sep"]) };
                let doc = format!("{{\"zarr_format\":3,\"node_type\":\"array\",\"shape\":{},\"data_type\":\"uint8\",\"chunk_grid\":{{\"name\":\"regular\",\"configuration\":{{\"chunk_shape\":{}}}}},\"chunk_key_encoding\":{},\"fill_value\":0,\"codecs\":[{{\"name\":\"bytes\"}}]}}", dims("4"), dims("1"), cke);
                let s2 = Arc::new(MemoryStore::new());
                zarrs::storage::WritableStorageTraits::set(&*s2, &meta_key_v3(&np0), doc.into_bytes().into()).unwrap();
                match zarrs::array::Array::open(s2, path) { Ok(a) => a, Err(_) => return "err-open".into() }
            } else if via == "v2json" {
                // a Zarr V2 array: the `v2` encoding with the document's dimension_separator (`.` when absent)
                let ds = if form == "absent" { String::new() } else { format!(",\"dimension_separator\":\"{}\"", m["sep"]) };
                let doc = format!("{{\"zarr_format\":2,\"shape\":{},\"chunks\":{},\"dtype\":\"|u1\",\"compressor\":null,\"fill_value\":0,\"order\":\"C\",\"filters\":null{}}}", dims("4"), dims("1"), ds);
                let s2 = Arc::new(MemoryStore::new());
                zarrs::storage::WritableStorageTraits::set(&*s2, &meta_key_v2_array(&np0), doc.into_bytes().into()).unwrap();
                let a = match zarrs::array::Array::open(s2.clone(), path) { Ok(a) => a, Err(_) => return "err-open".into() };
                // also after the metadata was stored again and re-opened
                if form != "absent" && a.store_metadata().is_ok() { match zarrs::array::Array::open(s2, path) { Ok(b) => b, Err(_) => return "err-reopen".into() } } else { a }
            } else { array };
            let key = array.chunk_key(&idx);
            let ks = key.as_str().to_string();
            let valid = StoreKey::new(ks.clone()).is_ok();
            let np = NodePath::new(path).unwrap();
            let prefix: StorePrefix = (&np).try_into().unwrap();
            let beneath = key.has_prefix(&prefix);
            let metas = [meta_key_v3(&np), meta_key_v2_array(&np), meta_key_v2_group(&np), meta_key_v2_attributes(&np)];
            let notmeta = metas.iter().all(|k| k != &key);
            let metas_s: Vec<String> = metas.iter().map(|k| k.as_str().to_string()).collect();
            format!("val key={} valid={} beneath={} notmeta={} metas={}", ks, valid, beneath, notmeta, metas_s.join(","))
        }
        "validkey" => format!("val {}", StoreKey::new(m.get("k").cloned().unwrap_or_default()).is_ok()),
        "validpath" => format!("val {}", NodePath::new(m.get("p").map(|s| s.as_str()).unwrap_or("")).is_ok()),
        _ => "bad-op".into(),
    })
}

pub fn generate(tier: &str, seed: u64) -> Vec<String> {
    let mut rng = Rng::new(seed);
    let thorough = tier == "thorough";
    let mut out = vec![];
    let mut specials: Vec<u64> = vec![0, 1, 9, 10, 11, 99, 100, 101, (1 << 32) - 1, 1 << 32, (1 << 32) + 1, 1 << 63, u64::MAX, u64::MAX - 1];
    let mut p = 1u64;
    for _ in 0..19 { p *= 10; specials.push(p - 1); specials.push(p); specials.push(p + 1); }
    let paths = ["/", "/a", "/a/b", "/group.with.dots/arr", "/c", "/0", "/c/0", "/zarr.json", "/x/.zarray", "/deep/er/and/deeper/array_1"];
    let n = if thorough { 6000 } else { 1200 };
    for k in 0..n {
        let rank = if k < 40 { k % 6 } else { rng.range(0, 5) } as usize;
        let idx: Vec<u64> = (0..rank).map(|_| if rng.chance(2, 3) { *rng.pick(&specials) } else { rng.next() >> rng.below(64) }).collect();
        let enc = if rng.chance(1, 2) { "default" } else { "v2" };
        let sep = if rng.chance(1, 2) { "/" } else { "." };
        let path = rng.pick(&paths);
        let via = if rng.chance(1, 4) { "meta" } else { "direct" };
        out.push(format!("c11 key enc={} sep={} path={} idx={} via={}", enc, sep, path, nl(&idx), via));
    }
    // metadata written by hand: V3 documents with the separator given / left out / an empty configuration, V2 documents with
    // either dimension_separator or none; the key must follow the document (the line carries the separator that applies)
    for k in 0..(if thorough { 1200 } else { 240 }) {
        let rank = 1 + (k % 3) as usize;
        let idx: Vec<u64> = (0..rank).map(|_| rng.below(4)).collect();
        let path = rng.pick(&paths);
        if k % 2 == 0 {
            let enc = if rng.chance(1, 2) { "default" } else { "v2" };
            let form = *rng.pick(&["explicit", "omit", "empty", "explicit_mu"]);
            let sep = if form.starts_with("explicit") { if rng.chance(1, 2) { "/" } else { "." } } else if enc == "v2" { "." } else { "/" };
            out.push(format!("c11 key enc={} sep={} path={} idx={} via=v3json form={}", enc, sep, path, nl(&idx), form));
        } else {
            let form = *rng.pick(&["explicit", "explicit", "absent"]);
            let sep = if form == "absent" { "." } else if rng.chance(1, 2) { "/" } else { "." };
            out.push(format!("c11 key enc=v2 sep={} path={} idx={} via=v2json form={}", sep, path, nl(&idx), form));
        }
    }
    // exhaustive small coordinates, all four encodings, ranks 0..3
    for enc in ["default", "v2"] { for sep in ["/", "."] { for path in ["/", "/a/b"] {
        out.push(format!("c11 key enc={} sep={} path={} idx=- via=direct", enc, sep, path));
        for a in 0..12u64 {
            out.push(format!("c11 key enc={} sep={} path={} idx={} via=direct", enc, sep, path, a));
            for b in 0..12u64 {
                out.push(format!("c11 key enc={} sep={} path={} idx={},{} via=direct", enc, sep, path, a, b));
            }
        }
    } } }
    // validity predicates (malformed stream)
    let alphabet = ['a', '/', '.', 'c', '0'];
    for _ in 0..300 {
        let len = rng.range(0, 6);
        let s: String = (0..len).map(|_| *rng.pick(&alphabet)).collect();
        out.push(format!("c11 validkey k={}", s));
        out.push(format!("c11 validpath p={}", s));
    }
    out
}
