//! Shared array machinery for C01/C04/C05/C06/C07/C16/C17/C20: configuration generator (metadata JSON),
//! array construction from stored metadata, element <-> ArrayBytes conversion, op execution.
use crate::c08::{make_store, DynStore, StoreCtx};
use crate::util::*;
use std::collections::BTreeMap;
use std::sync::Arc;
use zarrs::array::codec::CodecOptions;
use zarrs::array::{Array, ArrayBytes, RawBytesOffsets};
use zarrs::array_subset::ArraySubset;
use zarrs::storage::{ListableStorageTraits, ReadableWritableListableStorageTraits, StoreKey, WritableStorageTraits};

pub type Arr = Array<dyn ReadableWritableListableStorageTraits>;

pub struct ArrCtx {
    pub store: StoreCtx,
    pub array: Arc<Arr>,
    pub path: String,
    pub es: Option<usize>, // None = variable length
    pub opts: CodecOptions,
}

/// elements: `.`-separated hex strings (`-` = empty element); empty list = `~`
pub fn show_elems(xs: &[Vec<u8>]) -> String {
    if xs.is_empty() { "~".into() } else { xs.iter().map(|x| hex(x)).collect::<Vec<_>>().join(".") }
}
pub fn parse_elems(s: &str) -> Vec<Vec<u8>> {
    if s == "~" { vec![] } else { s.split('.').map(unhex).collect() }
}

pub fn to_array_bytes(es: Option<usize>, xs: &[Vec<u8>]) -> ArrayBytes<'static> {
    match es {
        Some(_) => ArrayBytes::new_flen(xs.concat()),
        None => {
            let mut offs = vec![0usize];
            let mut bytes = vec![];
            for x in xs {
                bytes.extend_from_slice(x);
                offs.push(bytes.len());
            }
            ArrayBytes::new_vlen(bytes, RawBytesOffsets::new(offs).unwrap()).unwrap()
        }
    }
}
pub fn from_array_bytes(es: Option<usize>, b: ArrayBytes<'_>) -> Vec<Vec<u8>> {
    match b {
        ArrayBytes::Fixed(bytes) => {
            let es = es.unwrap_or(1).max(1);
            bytes.chunks(es).map(|c| c.to_vec()).collect()
        }
        ArrayBytes::Variable(bytes, offsets) => {
            let o: &[usize] = &offsets;
            o.windows(2).map(|w| bytes[w[0]..w[1]].to_vec()).collect()
        }
    }
}

pub fn parse_subset(s: &str) -> ArraySubset {
    // start+shape
    let p = s.find('+').unwrap();
    ArraySubset::new_with_start_shape(pnl(&s[..p]), pnl(&s[p + 1..])).unwrap()
}

pub fn meta_key(path: &str) -> StoreKey {
    if path == "/" { StoreKey::new("zarr.json").unwrap() } else { StoreKey::new(format!("{}/zarr.json", &path[1..])).unwrap() }
}

pub fn open_ctx(m: &BTreeMap<String, String>) -> Result<ArrCtx, String> {
    let store = make_store(&m["store"]);
    let path = m["path"].clone();
    let meta = unhex(&m["meta"]);
    store.store.set(&meta_key(&path), meta.into()).map_err(|e| e.to_string())?;
    let s: DynStore = store.store.clone();
    let array = Array::open(s, &path).map_err(|e| format!("open: {}", e))?;
    let es = if m["es"] == "v" { None } else { Some(m["es"].parse().unwrap()) };
    let mut opts = CodecOptions::default();
    opts.set_store_empty_chunks(m.get("empty").map(|s| s == "1").unwrap_or(false));
    opts.set_experimental_partial_encoding(m.get("penc").map(|s| s == "1").unwrap_or(false));
    if let Some(ct) = m.get("ct") { opts.set_concurrent_target(ct.parse().unwrap()); }
    Ok(ArrCtx { store, array: Arc::new(array), path, es, opts })
}

/// every error is formatted (an error whose `Display` panics is a crash like any other)
fn log_err<E: std::fmt::Display>(e: &E) { let msg = e.to_string(); if std::env::var("VERIF_ERR_MSG").is_ok() { eprintln!("ERR: {}", msg); } }
fn res_unit<E: std::fmt::Display>(r: Result<(), E>) -> String { match r { Ok(()) => "ok".into(), Err(e) => { log_err(&e); "err".into() } } }
fn res_val<E: std::fmt::Display>(es: Option<usize>, r: Result<ArrayBytes<'_>, E>) -> String {
    match r { Ok(b) => format!("val {}", show_elems(&from_array_bytes(es, b))), Err(e) => { log_err(&e); "err".into() } }
}

pub fn list_keys(ctx: &ArrCtx) -> String {
    let mut ks: Vec<String> = ctx.store.store.list().unwrap_or_default().iter().map(|k| k.as_str().to_string()).collect();
    let mk = meta_key(&ctx.path).as_str().to_string();
    ks.retain(|k| k != &mk);
    ks.sort();
    if ks.is_empty() { "keys ~".into() } else { format!("keys {}", ks.join(",")) }
}

/// execute one array op through the synchronous API
pub fn exec_op(ctx: &mut ArrCtx, verb: &str, m: &BTreeMap<String, String>) -> String {
    let es = ctx.es;
    let a = ctx.array.clone();
    let o = ctx.opts.clone();
    guarded(|| match verb {
        "store_chunk" => res_unit(a.store_chunk_opt(&pnl(&m["c"]), to_array_bytes(es, &parse_elems(&m["data"])), &o)),
        "store_chunks" => res_unit(a.store_chunks_opt(&parse_subset(&m["box"]), to_array_bytes(es, &parse_elems(&m["data"])), &o)),
        "store_chunk_subset" => res_unit(a.store_chunk_subset_opt(&pnl(&m["c"]), &parse_subset(&m["r"]), to_array_bytes(es, &parse_elems(&m["data"])), &o)),
        "store_array_subset" => res_unit(a.store_array_subset_opt(&parse_subset(&m["r"]), to_array_bytes(es, &parse_elems(&m["data"])), &o)),
        "erase_chunk" => res_unit(a.erase_chunk(&pnl(&m["c"]))),
        "erase_chunks" => res_unit(a.erase_chunks(&parse_subset(&m["box"]))),
        "retrieve_chunk" => res_val(es, a.retrieve_chunk_opt(&pnl(&m["c"]), &o)),
        "retrieve_chunk_if_exists" => match a.retrieve_chunk_if_exists_opt(&pnl(&m["c"]), &o) {
            Ok(Some(b)) => format!("val {}", show_elems(&from_array_bytes(es, b))),
            Ok(None) => "none".into(),
            Err(_) => "err".into(),
        },
        "retrieve_chunks" => res_val(es, a.retrieve_chunks_opt(&parse_subset(&m["box"]), &o)),
        // the encoded chunks of a box, in the order of `chunks.indices()`: which positions hold a value, and position i must
        // hold exactly what `retrieve_encoded_chunk` returns for the i-th index (whatever the concurrency target)
        "enc_chunks" => {
            let b = parse_subset(&m["box"]);
            match a.retrieve_encoded_chunks(&b, &o) {
                Ok(v) => {
                    for (i, idx) in b.indices().into_iter().enumerate() {
                        let single = a.retrieve_encoded_chunk(&idx).ok().flatten();
                        if v.get(i).map(|x| x.as_ref().map(|y| y.to_vec())) != Some(single.map(|y| y.to_vec())) { return format!("encs position {} does not hold the encoded chunk {}", i, nl(&idx)); }
                    }
                    if v.is_empty() { "encs ~".into() } else { format!("encs {}", v.iter().map(|x| if x.is_some() { '1' } else { '0' }).collect::<String>()) }
                }
                Err(_) => "err".into(),
            }
        }
        "retrieve_chunk_subset" => res_val(es, a.retrieve_chunk_subset_opt(&pnl(&m["c"]), &parse_subset(&m["r"]), &o)),
        "retrieve_array_subset" => res_val(es, a.retrieve_array_subset_opt(&parse_subset(&m["r"]), &o)),
        "keys" => list_keys(ctx),
        "raw" => {
            use zarrs::storage::ReadableStorageTraits;
            match ctx.store.store.get(&a.chunk_key(&pnl(&m["c"]))) { Ok(Some(b)) => format!("raw {}", hex(&b)), Ok(None) => "raw none".into(), Err(_) => "err".into() }
        }
        "reopen" => {
            // a fresh handle from the stored metadata (written through store_metadata of the current handle)
            if a.store_metadata().is_err() { return "err".into(); }
            let s: DynStore = ctx.store.store.clone();
            match Array::open(s, &ctx.path) { Ok(arr) => { ctx.array = Arc::new(arr); "ok".into() } Err(_) => "err".into() }
        }
        _ => "bad-op".into(),
    })
}

// ---------------------------------------------------------------------------------------------
// configuration generator

#[derive(Clone)]
pub struct DType {
    pub name: &'static str,
    pub es: Option<usize>,
    /// (fill as JSON, fill bytes)
    pub fills: Vec<(String, Vec<u8>)>,
    pub numeric: bool,
    pub float: bool,
}

pub fn dtypes() -> Vec<DType> {
    let f = |j: &str, b: &[u8]| (j.to_string(), b.to_vec());
    vec![
        DType { name: "bool", es: Some(1), fills: vec![f("false", &[0]), f("true", &[1])], numeric: false, float: false },
        DType { name: "uint8", es: Some(1), fills: vec![f("0", &[0]), f("255", &[255])], numeric: true, float: false },
        DType { name: "int16", es: Some(2), fills: vec![f("0", &[0, 0]), f("-2", &[0xfe, 0xff])], numeric: true, float: false },
        DType { name: "uint16", es: Some(2), fills: vec![f("0", &[0, 0]), f("513", &[1, 2])], numeric: true, float: false },
        DType { name: "int32", es: Some(4), fills: vec![f("0", &[0; 4]), f("-1", &[0xff; 4])], numeric: true, float: false },
        DType { name: "uint64", es: Some(8), fills: vec![f("0", &[0; 8]), f("72623859790382856", &[8, 7, 6, 5, 4, 3, 2, 1])], numeric: true, float: false },
        DType { name: "float32", es: Some(4), fills: vec![f("0.0", &[0; 4]), f("\"NaN\"", &[0, 0, 0xc0, 0x7f]), f("-0.0", &[0, 0, 0, 0x80]), f("1.5", &[0, 0, 0xc0, 0x3f])], numeric: true, float: true },
        DType { name: "float64", es: Some(8), fills: vec![f("0.0", &[0; 8]), f("\"-Infinity\"", &[0, 0, 0, 0, 0, 0, 0xf0, 0xff]), f("\"0x7ff8000000000001\"", &[1, 0, 0, 0, 0, 0, 0xf8, 0x7f])], numeric: true, float: true },
        DType { name: "complex64", es: Some(8), fills: vec![f("[0.0, 0.0]", &[0; 8]), f("[1.5, \"NaN\"]", &[0, 0, 0xc0, 0x3f, 0, 0, 0xc0, 0x7f])], numeric: false, float: false },
        DType { name: "r24", es: Some(3), fills: vec![f("[0, 0, 0]", &[0, 0, 0]), f("[1, 2, 3]", &[1, 2, 3])], numeric: false, float: false },
        DType { name: "string", es: None, fills: vec![f("\"\"", b""), f("\"ab\"", b"ab")], numeric: false, float: false },
        DType { name: "bytes", es: None, fills: vec![f("[]", &[]), f("[0, 255]", &[0, 255])], numeric: false, float: false },
    ]
}

#[derive(Clone)]
pub struct Cfg {
    pub dtype: DType,
    pub fill: (String, Vec<u8>),
    pub shape: Vec<u64>,
    /// per dimension: (fixed?, sizes)
    pub grid: Vec<(bool, Vec<u64>)>,
    pub regular_impl: bool,
    pub keys: (String, String), // (default|v2, / or .)
    pub codecs_json: String,
    pub chain_desc: String,
    pub sharded: bool,
    pub path: String,
    /// effective inner chunk shape in array coordinates (outermost sharding seen through the array->array codecs); None if not sharded or not invertible (squeeze)
    pub eff_inner: Option<Vec<u64>>,
}

impl Cfg {
    pub fn grid_text(&self) -> String {
        if self.grid.is_empty() { return if self.regular_impl { "R-".into() } else { "~".into() }; }
        if self.regular_impl { format!("R{}", nl(&self.grid.iter().map(|d| d.1[0]).collect::<Vec<_>>())) }
        else { self.grid.iter().map(|d| if d.0 { format!("f{}", d.1[0]) } else { format!("v{}", nl(&d.1)) }).collect::<Vec<_>>().join(";") }
    }
    pub fn grid_shape(&self) -> Vec<u64> {
        self.grid.iter().zip(&self.shape).map(|(d, &a)| if d.0 { (a + d.1[0] - 1) / d.1[0] } else { d.1.len() as u64 }).collect()
    }
    pub fn chunk_origin_shape(&self, c: &[u64]) -> (Vec<u64>, Vec<u64>) {
        let mut o = vec![]; let mut s = vec![];
        for (d, &ci) in self.grid.iter().zip(c) {
            if d.0 { o.push(ci * d.1[0]); s.push(d.1[0]); }
            else { o.push(d.1[..ci as usize].iter().sum()); s.push(d.1[ci as usize]); }
        }
        (o, s)
    }
    pub fn metadata_json(&self) -> String {
        let grid = if self.regular_impl {
            format!("{{\"name\":\"regular\",\"configuration\":{{\"chunk_shape\":[{}]}}}}", self.grid.iter().map(|d| d.1[0].to_string()).collect::<Vec<_>>().join(","))
        } else {
            format!("{{\"name\":\"rectangular\",\"configuration\":{{\"chunk_shape\":[{}]}}}}",
                self.grid.iter().map(|d| if d.0 { d.1[0].to_string() } else { format!("[{}]", d.1.iter().map(|x| x.to_string()).collect::<Vec<_>>().join(",")) }).collect::<Vec<_>>().join(","))
        };
        format!(
            "{{\"zarr_format\":3,\"node_type\":\"array\",\"shape\":[{}],\"data_type\":\"{}\",\"chunk_grid\":{},\"chunk_key_encoding\":{{\"name\":\"{}\",\"configuration\":{{\"separator\":\"{}\"}}}},\"fill_value\":{},\"codecs\":{}}}",
            self.shape.iter().map(|x| x.to_string()).collect::<Vec<_>>().join(","), self.dtype.name, grid, self.keys.0, self.keys.1, self.fill.0, self.codecs_json)
    }
    pub fn cfg_line(&self, prop: &str, store: &str, empty: bool, penc: bool, extra: &str) -> String {
        format!("{} cfg store={} path={} dtype={} shape={} grid={} keys={}:{} es={} fill={} empty={} penc={} chain={}{} meta={}",
            prop, store, self.path, self.dtype.name, nl(&self.shape), self.grid_text(), self.keys.0, self.keys.1,
            self.dtype.es.map(|e| e.to_string()).unwrap_or("v".into()), hex(&self.fill.1), empty as u8, penc as u8, self.chain_desc, extra, hex(self.metadata_json().as_bytes()))
    }
}

fn b2b_codec(rng: &mut Rng, es: Option<usize>, allow_checksum: bool, shuffle_ok: bool) -> (String, String) {
    let n = if allow_checksum { 10 } else { 8 };
    let mut k = rng.below(n);
    // shuffle needs an input whose length is a multiple of its element size: only directly after `bytes`
    if k == 6 && !shuffle_ok { k = 7; }
    match k {
        0 => (format!("{{\"name\":\"gzip\",\"configuration\":{{\"level\":{}}}}}", rng.range(0, 9)), "gzip".into()),
        1 => (format!("{{\"name\":\"zstd\",\"configuration\":{{\"level\":{},\"checksum\":{}}}}}", rng.range(1, 9), rng.chance(1, 2)), "zstd".into()),
        2 => {
            let ts = es.unwrap_or(1);
            let shuffle = if ts > 1 { *rng.pick(&["noshuffle", "shuffle", "bitshuffle"]) } else { "noshuffle" };
            let tsj = if shuffle == "noshuffle" { String::new() } else { format!(",\"typesize\":{}", ts) };
            (format!("{{\"name\":\"blosc\",\"configuration\":{{\"cname\":\"{}\",\"clevel\":{},\"shuffle\":\"{}\"{},\"blocksize\":0}}}}", rng.pick(&["lz4", "zstd", "zlib", "blosclz", "lz4hc"]), rng.range(0, 9), shuffle, tsj), "blosc".into())
        }
        3 => (format!("{{\"name\":\"numcodecs.bz2\",\"configuration\":{{\"level\":{}}}}}", rng.range(1, 9)), "bz2".into()),
        4 => (format!("{{\"name\":\"numcodecs.zlib\",\"configuration\":{{\"level\":{}}}}}", rng.range(0, 9)), "zlib".into()),
        5 => (format!("{{\"name\":\"zarrs.gdeflate\",\"configuration\":{{\"level\":{}}}}}", rng.range(0, 12)), "gdeflate".into()),
        6 => (format!("{{\"name\":\"numcodecs.shuffle\",\"configuration\":{{\"elementsize\":{}}}}}", es.unwrap_or(2).max(1)), "shuffle".into()),
        7 => ("{\"name\":\"zstd\",\"configuration\":{\"level\":3,\"checksum\":false}}".into(), "zstd".into()),
        8 => ("{\"name\":\"crc32c\"}".into(), "crc32c".into()),
        _ => ("{\"name\":\"numcodecs.fletcher32\"}".into(), "fletcher32".into()),
    }
}

/// codec list for a chunk of shape `cs` (None = irregular/unknown => no sharding, no transpose of fixed rank issues)
fn gen_chain(rng: &mut Rng, dt: &DType, cs: Option<&[u64]>, depth: u32, allow_shard: bool) -> (String, String, bool, Option<Vec<u64>>) {
    let rank = cs.map(|c| c.len());
    let mut json: Vec<String> = vec![];
    let mut desc: Vec<String> = vec![];
    let mut sharded = false;
    let mut eff_inner: Option<Vec<u64>> = None;
    let mut perm_applied: Option<Vec<usize>> = None;
    let mut squeezed = false;
    // array -> array
    let mut cs_cur: Option<Vec<u64>> = cs.map(|c| c.to_vec());
    // a VALUE-mapping array->array codec that is lossless here: fixedscaleoffset on int32 with scale 1 and offset 1
    // (exact in the codec's float64 arithmetic; only i32::MIN would saturate, which the generators do not produce):
    // the encoded fill value differs from the fill value
    if depth == 0 && dt.name == "int32" && rng.chance(1, 8) {
        json.push("{\"name\":\"numcodecs.fixedscaleoffset\",\"configuration\":{\"offset\":1,\"scale\":1,\"dtype\":\"<i4\",\"astype\":\"<i4\"}}".into());
        desc.push("fso1".into());
    }
    if let Some(r) = rank {
        if r >= 1 && rng.chance(1, 3) {
            let mut perm: Vec<usize> = (0..r).collect();
            for i in (1..r).rev() { let j = rng.below(i as u64 + 1) as usize; perm.swap(i, j); }
            json.push(format!("{{\"name\":\"transpose\",\"configuration\":{{\"order\":[{}]}}}}", perm.iter().map(|x| x.to_string()).collect::<Vec<_>>().join(",")));
            desc.push(format!("transpose{}", perm.iter().map(|x| x.to_string()).collect::<String>()));
            cs_cur = cs_cur.map(|c| perm.iter().map(|&p| c[p]).collect());
            perm_applied = Some(perm.clone());
            if r >= 2 && rng.chance(1, 3) {
                // a second transpose: the composite maps encoded axis i to decoded axis perm[perm2[i]]
                let mut perm2: Vec<usize> = (0..r).collect();
                for i in (1..r).rev() { let j = rng.below(i as u64 + 1) as usize; perm2.swap(i, j); }
                json.push(format!("{{\"name\":\"transpose\",\"configuration\":{{\"order\":[{}]}}}}", perm2.iter().map(|x| x.to_string()).collect::<Vec<_>>().join(",")));
                desc.push(format!("transpose{}", perm2.iter().map(|x| x.to_string()).collect::<String>()));
                cs_cur = cs_cur.map(|c| perm2.iter().map(|&p| c[p]).collect());
                perm_applied = Some(perm2.iter().map(|&i| perm[i]).collect());
            }
        }
        if r >= 1 && rng.chance(1, 8) && dt.es.is_some() {
            json.push("{\"name\":\"zarrs.squeeze\"}".into());
            desc.push("squeeze".into());
            squeezed = true;
            cs_cur = cs_cur.map(|c| { let v: Vec<u64> = c.into_iter().filter(|&x| x != 1).collect(); v });
        }
    }
    // array -> bytes
    let endian = if rng.chance(1, 3) { "big" } else { "little" };
    match dt.es {
        None => {
            match rng.below(3) {
                0 => {
                    let idt = if rng.chance(1, 2) { "uint32" } else { "uint64" };
                    let dc = if rng.chance(1, 2) { "[{\"name\":\"bytes\"},{\"name\":\"zstd\",\"configuration\":{\"level\":1,\"checksum\":false}}]" } else { "[{\"name\":\"bytes\"}]" };
                    let ic = if rng.chance(1, 2) { "[{\"name\":\"bytes\",\"configuration\":{\"endian\":\"little\"}},{\"name\":\"crc32c\"}]" } else { "[{\"name\":\"bytes\",\"configuration\":{\"endian\":\"big\"}}]" };
                    json.push(format!("{{\"name\":\"zarrs.vlen\",\"configuration\":{{\"index_codecs\":{},\"data_codecs\":{},\"index_data_type\":\"{}\"}}}}", ic, dc, idt));
                    desc.push(format!("vlen-{}", idt));
                }
                1 => { json.push("{\"name\":\"zarrs.vlen_v2\"}".into()); desc.push("vlen_v2".into()); }
                _ => {
                    if dt.name == "string" { json.push("{\"name\":\"vlen-utf8\"}".into()); desc.push("vlen-utf8".into()); }
                    else { json.push("{\"name\":\"vlen-bytes\"}".into()); desc.push("vlen-bytes".into()); }
                }
            }
        }
        Some(es) => {
            let can_shard = allow_shard && depth < 2 && cs_cur.as_ref().map(|c| !c.is_empty() && c.iter().all(|&x| x > 0)).unwrap_or(false);
            let k = rng.below(10);
            if can_shard && k < 4 {
                let c = cs_cur.clone().unwrap();
                // inner chunk shape: a divisor of each extent
                let inner: Vec<u64> = c.iter().map(|&x| { let ds: Vec<u64> = (1..=x).filter(|d| x % d == 0).collect(); *rng.pick(&ds) }).collect();
                let (ij, idesc, _, _) = gen_chain(rng, dt, Some(&inner), depth + 1, true);
                if !squeezed {
                    // encoded[i] = decoded[perm[i]]  =>  decoded[perm[i]] = encoded[i]
                    eff_inner = Some(match &perm_applied {
                        Some(p) => { let mut d = vec![0u64; inner.len()]; for (i, &pi) in p.iter().enumerate() { d[pi] = inner[i]; } d }
                        None => inner.clone(),
                    });
                }
                let loc = if rng.chance(1, 2) { "end" } else { "start" };
                let idx_codecs = match rng.below(3) {
                    0 => "[{\"name\":\"bytes\",\"configuration\":{\"endian\":\"little\"}},{\"name\":\"crc32c\"}]",
                    1 => "[{\"name\":\"bytes\",\"configuration\":{\"endian\":\"big\"}}]",
                    _ => "[{\"name\":\"bytes\",\"configuration\":{\"endian\":\"little\"}}]",
                };
                json.push(format!("{{\"name\":\"sharding_indexed\",\"configuration\":{{\"chunk_shape\":[{}],\"codecs\":{},\"index_codecs\":{},\"index_location\":\"{}\"}}}}",
                    inner.iter().map(|x| x.to_string()).collect::<Vec<_>>().join(","), ij, idx_codecs, loc));
                let idx_desc = if idx_codecs.contains("crc32c") { "le+crc" } else if idx_codecs.contains("big") { "be" } else { "le" };
                desc.push(format!("shard[{};{};{};{}]", nl(&inner).replace(',', "x"), loc, idx_desc, idesc));
                sharded = true;
            } else if dt.numeric && es > 1 && k == 4 {
                json.push("{\"name\":\"numcodecs.pcodec\",\"configuration\":{}}".into());
                desc.push("pcodec".into());
            } else if EXT_PACKBITS.load(std::sync::atomic::Ordering::Relaxed) && k == 5 && (dt.name.starts_with("uint") || dt.name == "float32" || dt.name == "complex64") {
                // (only for the generators that opt in) a bit range / padding mode: lossless as long as every element has
                // no bits outside `first_bit..=last_bit` of each component, which `gen_elem` and the fill check guarantee
                let cb: u64 = if dt.name == "complex64" { 32 } else { es as u64 * 8 };
                if rng.chance(1, 4) { json.push("{\"name\":\"packbits\"}".into()); desc.push("packbits".into()); }
                else {
                    let first = if rng.chance(1, 3) { 0 } else { rng.below(cb) };
                    let last = if rng.chance(1, 2) { cb - 1 } else { rng.range(first, cb - 1) };
                    let pad = *rng.pick(&["none", "first_byte", "last_byte"]);
                    json.push(format!("{{\"name\":\"packbits\",\"configuration\":{{\"padding_encoding\":\"{}\",\"first_bit\":{},\"last_bit\":{}}}}}", pad, first, last));
                    desc.push(format!("packbits.f{}.l{}.{}", first, last, pad));
                }
            } else if (dt.name == "bool" || dt.numeric) && !dt.float && k == 5 {
                json.push("{\"name\":\"packbits\"}".into());
                desc.push("packbits".into());
            } else if es == 1 {
                json.push("{\"name\":\"bytes\"}".into());
                desc.push("bytes".into());
            } else {
                json.push(format!("{{\"name\":\"bytes\",\"configuration\":{{\"endian\":\"{}\"}}}}", endian));
                desc.push(format!("bytes-{}", endian));
            }
        }
    }
    // bytes -> bytes
    let nb = match rng.below(6) { 0 | 1 | 2 => 0, 3 | 4 => 1, _ => 2 };
    let after_bytes = desc.last().map(|d| d.starts_with("bytes")).unwrap_or(false);
    for i in 0..nb {
        let (j, d) = b2b_codec(rng, dt.es, true, after_bytes && i == 0);
        json.push(j);
        desc.push(d);
    }
    (format!("[{}]", json.join(",")), desc.join("|"), sharded, eff_inner)
}

/// a configuration whose array-to-bytes codec is `packbits` with a bit range (data confined to it, see `packbits_mask`): every
/// component size, single- and multi-component data types, every padding mode, chunks of 2 dimensions so that regions
/// are not contiguous in the chunk
pub fn gen_packbits_cfg(rng: &mut Rng) -> Cfg {
    let dts = dtypes();
    loop {
        let name = *rng.pick(&["uint8", "uint16", "uint64", "float32", "complex64"]);
        let dt = dts.iter().find(|d| d.name == name).unwrap().clone();
        let cb: u64 = if name == "complex64" { 32 } else { dt.es.unwrap() as u64 * 8 };
        let first = if rng.chance(1, 4) { 0 } else { rng.range(1, cb - 1) };
        let last = if rng.chance(1, 2) { cb - 1 } else { rng.range(first, cb - 1) };
        let pad = *rng.pick(&["none", "first_byte", "last_byte"]);
        let chain_desc = format!("packbits.f{}.l{}.{}", first, last, pad);
        let fill = rng.pick(&dt.fills).clone();
        if let Some(m) = packbits_mask(&chain_desc, &dt) { if fill.1.iter().zip(&m).any(|(x, k)| x & !k != 0) { continue; } }
        let chunk = vec![rng.range(2, 5), rng.range(2, 5)];
        let shape = vec![chunk[0] * rng.range(1, 2) + rng.below(2), chunk[1] * rng.range(1, 2)];
        let codecs_json = format!("[{{\"name\":\"packbits\",\"configuration\":{{\"padding_encoding\":\"{}\",\"first_bit\":{},\"last_bit\":{}}}}}]", pad, first, last);
        return Cfg { dtype: dt, fill, shape, grid: vec![(true, vec![chunk[0]]), (true, vec![chunk[1]])], regular_impl: true,
            keys: ("default".into(), "/".into()), codecs_json, chain_desc, sharded: false, path: "/pb".into(), eff_inner: None };
    }
}

/// a configuration with TWO array->array codecs of which the first changes the chunk shape (transposes of non-square
/// chunks with orders that are not their own inverse, squeeze + transpose), then `bytes` (+ a checksum or a compressor)
pub fn gen_two_a2a_cfg(rng: &mut Rng) -> Cfg {
    let dts = dtypes();
    let want = *rng.pick(&["uint16", "int32", "uint8"]);
    let dt = dts.iter().find(|d| d.name == want).unwrap().clone();
    let fill = rng.pick(&dt.fills).clone();
    let perm_json = |p: &[usize]| format!("{{\"name\":\"transpose\",\"configuration\":{{\"order\":[{}]}}}}", p.iter().map(|x| x.to_string()).collect::<Vec<_>>().join(","));
    let perm_desc = |p: &[usize]| format!("transpose{}", p.iter().map(|x| x.to_string()).collect::<String>());
    let (chunk, a2a_json, a2a_desc): (Vec<u64>, Vec<String>, Vec<String>) = match rng.below(4) {
        0 => (vec![2, 3], vec![perm_json(&[1, 0]), perm_json(&[1, 0])], vec![perm_desc(&[1, 0]), perm_desc(&[1, 0])]),
        1 => (vec![2, 3, 4], vec![perm_json(&[1, 2, 0]), perm_json(&[0, 2, 1])], vec![perm_desc(&[1, 2, 0]), perm_desc(&[0, 2, 1])]),
        2 => (vec![3, 2, 2], vec![perm_json(&[2, 0, 1]), perm_json(&[2, 0, 1])], vec![perm_desc(&[2, 0, 1]), perm_desc(&[2, 0, 1])]),
        _ => (vec![1, 3, 2], vec!["{\"name\":\"zarrs.squeeze\"}".to_string(), perm_json(&[1, 0])], vec!["squeeze".to_string(), perm_desc(&[1, 0])]),
    };
    let shape: Vec<u64> = chunk.iter().map(|&c| c * rng.range(1, 2)).collect();
    let es = dt.es.unwrap();
    let bytes = if es == 1 { "{\"name\":\"bytes\"}".to_string() } else { "{\"name\":\"bytes\",\"configuration\":{\"endian\":\"little\"}}".to_string() };
    let (tail_json, tail_desc) = match rng.below(3) { 0 => (String::new(), String::new()), 1 => (",{\"name\":\"crc32c\"}".to_string(), "|crc32c".to_string()), _ => (",{\"name\":\"gzip\",\"configuration\":{\"level\":1}}".to_string(), "|gzip".to_string()) };
    Cfg { dtype: dt, fill, shape, grid: chunk.iter().map(|&c| (true, vec![c])).collect(), regular_impl: true, keys: ("default".into(), "/".into()),
        codecs_json: format!("[{},{}{}]", a2a_json.join(","), bytes, tail_json), chain_desc: format!("{}|bytes{}{}", a2a_desc.join("|"), if es == 1 { "" } else { "-little" }, tail_desc),
        sharded: false, path: "/t2".into(), eff_inner: None }
}

pub fn gen_cfg(rng: &mut Rng, want_sharded: Option<bool>) -> Cfg {
    let dts = dtypes();
    loop {
        let dt = rng.pick(&dts).clone();
        let fill = rng.pick(&dt.fills).clone();
        let rank = match rng.below(10) { 0 => 0, 1 | 2 | 3 => 1, 4 | 5 | 6 | 7 => 2, _ => 3 } as usize;
        let regular = rng.chance(2, 3);
        let mut grid: Vec<(bool, Vec<u64>)> = vec![];
        let mut shape: Vec<u64> = vec![];
        for _ in 0..rank {
            if regular || rng.chance(1, 2) {
                let c = rng.range(1, 4);
                grid.push((true, vec![c]));
                shape.push(rng.range(1, if rank == 3 { 5 } else { 9 }));
            } else {
                let n = rng.range(1, 3);
                let sizes: Vec<u64> = (0..n).map(|_| rng.range(1, 3)).collect();
                shape.push(sizes.iter().sum());
                grid.push((false, sizes));
            }
        }
        let all_fixed = grid.iter().all(|d| d.0);
        let cs: Option<Vec<u64>> = if all_fixed { Some(grid.iter().map(|d| d.1[0]).collect()) } else { None };
        let (codecs_json, chain_desc, sharded, eff_inner) = if all_fixed {
            gen_chain(rng, &dt, cs.as_deref(), 0, want_sharded != Some(false))
        } else {
            // irregular chunk shapes: chain must not depend on a fixed chunk shape
            let r: Vec<u64> = vec![1; rank];
            let (j, d, _, _) = gen_chain(rng, &dt, Some(&r), 0, false);
            if d.contains("squeeze") { continue; }
            (j, d, false, None)
        };
        if want_sharded == Some(true) && !sharded { continue; }
        // a fill value with bits outside a packbits bit range would not survive the codec
        if let Some(m) = packbits_mask(&chain_desc, &dt) { if fill.1.iter().zip(&m).any(|(x, k)| x & !k != 0) { continue; } }
        let keys = (if rng.chance(2, 3) { "default" } else { "v2" }.to_string(), if rng.chance(1, 2) { "/" } else { "." }.to_string());
        let path = rng.pick(&["/", "/a", "/g/arr"]).to_string();
        return Cfg { dtype: dt, fill, shape, grid, regular_impl: all_fixed && rng.chance(3, 4), keys, codecs_json, chain_desc, sharded, path, eff_inner };
    }
}

/// generators that set this produce `packbits` with a bit range (and data confined to it)
pub static EXT_PACKBITS: std::sync::atomic::AtomicBool = std::sync::atomic::AtomicBool::new(false);
/// the bytes an element may use under a `packbits.f<first>.l<last>.<pad>` stage anywhere in the chain (native = little-endian components)
pub fn packbits_mask(desc: &str, dt: &DType) -> Option<Vec<u8>> {
    let i = desc.find("packbits.f")?;
    let rest = &desc[i + "packbits.f".len()..];
    let first: u32 = rest.split('.').next()?.parse().ok()?;
    let last: u32 = rest.split(".l").nth(1)?.split('.').next()?.parse().ok()?;
    let es = dt.es?;
    let cbytes = if dt.name == "complex64" { 4 } else { es };
    let hi: u128 = (1u128 << (last + 1)) - 1; let lo: u128 = (1u128 << first) - 1;
    let m = ((hi & !lo) as u64).to_le_bytes();
    Some((0..es).map(|i| m[i % cbytes]).collect())
}
pub fn gen_elem(rng: &mut Rng, cfg: &Cfg) -> Vec<u8> {
    if rng.chance(3, 10) { return cfg.fill.1.clone(); }
    match cfg.dtype.es {
        Some(es) => {
            if cfg.dtype.name == "bool" { return vec![rng.below(2) as u8]; }
            if rng.chance(1, 6) { return vec![0; es]; }
            let mut b = rng.bytes(es);
            if rng.chance(1, 2) { for x in b.iter_mut().skip(1) { *x = 0; } }
            if let Some(m) = packbits_mask(&cfg.chain_desc, &cfg.dtype) { for (x, k) in b.iter_mut().zip(&m) { *x &= k; } }
            b
        }
        None => {
            let n = match rng.below(6) { 0 => 0, 1 | 2 => 1, 3 => 2, 4 => 4, _ => rng.range(0, 9) } as usize;
            if cfg.dtype.name == "string" {
                // valid UTF-8, including repetitions of the fill
                if rng.chance(1, 8) && !cfg.fill.1.is_empty() { return cfg.fill.1.repeat(2); }
                (0..n).map(|_| *rng.pick(&[b'a', b'b', b'z', b'0'])).collect()
            } else { rng.bytes(n) }
        }
    }
}
pub fn gen_data(rng: &mut Rng, cfg: &Cfg, n: u64) -> String {
    let allfill = rng.chance(1, 6);
    let xs: Vec<Vec<u8>> = (0..n).map(|_| if allfill { cfg.fill.1.clone() } else { gen_elem(rng, cfg) }).collect();
    show_elems(&xs)
}

fn rand_box(rng: &mut Rng, ext: &[u64]) -> (Vec<u64>, Vec<u64>) {
    // non-empty mostly; within 0..ext
    let mut s = vec![]; let mut n = vec![];
    for &e in ext {
        if e == 0 { s.push(0); n.push(0); continue; }
        let st = rng.below(e);
        let len = if rng.chance(1, 12) { 0 } else { rng.range(1, e - st) };
        s.push(st); n.push(len);
    }
    (s, n)
}

/// one write/erase op line (without the property prefix)
pub fn gen_write_op(rng: &mut Rng, cfg: &Cfg) -> String {
    let gs = cfg.grid_shape();
    let rank = cfg.shape.len();
    let chunk: Vec<u64> = gs.iter().map(|&g| rng.below(g.max(1))).collect();
    let (_co, cshape) = cfg.chunk_origin_shape(&chunk);
    match rng.below(12) {
        0 | 1 => format!("op store_chunk c={} data={}", nl(&chunk), gen_data(rng, cfg, cshape.iter().product())),
        2 => {
            let (s, n) = rand_box(rng, &gs);
            // region covered
            let mut total = 1u64;
            for d in 0..rank {
                if n[d] == 0 { total = 0; break; }
                let (o0, _) = cfg.chunk_origin_shape(&(0..rank).map(|k| if k == d { s[d] } else { 0 }).collect::<Vec<_>>());
                let (o1, s1) = cfg.chunk_origin_shape(&(0..rank).map(|k| if k == d { s[d] + n[d] - 1 } else { 0 }).collect::<Vec<_>>());
                total *= o1[d] + s1[d] - o0[d];
            }
            if rank == 0 { total = 1; }
            format!("op store_chunks box={}+{} data={}", nl(&s), nl(&n), gen_data(rng, cfg, total))
        }
        3 | 4 | 5 => {
            let (s, n) = rand_box(rng, &cshape);
            format!("op store_chunk_subset c={} r={}+{} data={}", nl(&chunk), nl(&s), nl(&n), gen_data(rng, cfg, n.iter().product()))
        }
        6 | 7 | 8 | 9 => {
            let (s, n) = rand_box(rng, &cfg.shape);
            format!("op store_array_subset r={}+{} data={}", nl(&s), nl(&n), gen_data(rng, cfg, n.iter().product()))
        }
        10 => format!("op erase_chunk c={}", nl(&chunk)),
        _ => { let (s, n) = rand_box(rng, &gs); format!("op erase_chunks box={}+{}", nl(&s), nl(&n)) }
    }
}

pub fn gen_read_op(rng: &mut Rng, cfg: &Cfg) -> String {
    let gs = cfg.grid_shape();
    let chunk: Vec<u64> = gs.iter().map(|&g| rng.below(g.max(1))).collect();
    let (_co, cshape) = cfg.chunk_origin_shape(&chunk);
    match rng.below(8) {
        0 => format!("op retrieve_chunk c={}", nl(&chunk)),
        1 => format!("op retrieve_chunk_if_exists c={}", nl(&chunk)),
        2 => { let (s, n) = rand_box(rng, &gs); format!("op retrieve_chunks box={}+{}", nl(&s), nl(&n)) }
        3 | 4 => { let (s, n) = rand_box(rng, &cshape); format!("op retrieve_chunk_subset c={} r={}+{}", nl(&chunk), nl(&s), nl(&n)) }
        _ => { let (s, n) = rand_box(rng, &cfg.shape); format!("op retrieve_array_subset r={}+{}", nl(&s), nl(&n)) }
    }
}

/// all chunks, the whole array, and a few regions
pub fn gen_full_reads(rng: &mut Rng, cfg: &Cfg, out: &mut Vec<String>, prop: &str) {
    let gs = cfg.grid_shape();
    let nchunks: u64 = gs.iter().product();
    let mut idx: Vec<Vec<u64>> = vec![vec![]];
    for &g in &gs { let mut nxt = vec![]; for p in &idx { for e in 0..g { let mut q = p.clone(); q.push(e); nxt.push(q); } } idx = nxt; }
    if nchunks <= 24 { for c in &idx { out.push(format!("{} op retrieve_chunk c={}", prop, nl(c))); } }
    out.push(format!("{} op retrieve_array_subset r={}+{}", prop, nl(&vec![0; cfg.shape.len()]), nl(&cfg.shape)));
    out.push(format!("{} op retrieve_chunks box={}+{}", prop, nl(&vec![0; gs.len()]), nl(&gs)));
    for _ in 0..3 { out.push(format!("{} {}", prop, gen_read_op(rng, cfg))); }
    out.push(format!("{} op keys", prop));
}
