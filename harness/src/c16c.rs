//! C16 (the concurrency split): `c16 conc target=<n> chunks=<n> ccm=<n> rmin=<n> rmax=<n|inf> [rk=<kind>]
//! opts=<validate>,<store_empty>,<ct>,<partial_enc> [e2e=<k>]` calls the REAL `concurrency_chunks_and_codec` and
//! `calc_concurrency_outer_inner` (zarrs/src/array/concurrency.rs) under the global `chunk_concurrent_minimum` = ccm
//! (restored afterwards) and prints the recommendations as read back through `min()`/`max()`, both limits and EVERY field
//! of the `CodecOptions` handed down.  With `e2e=<k>` the line also runs the end-to-end observables on real arrays of
//! k chunks (uint8, fill 0, bytes+crc32c, MemoryStore) at `concurrent_target = target`: all-fill data stored with
//! `store_empty_chunks=true` through `store_chunks_opt` / `store_array_subset_opt` (number of keys written), and chunks
//! whose checksum was altered read with `validate_checksums=false` (must succeed with the stored data) and `=true` (must
//! fail) through `retrieve_chunks_opt` / `retrieve_array_subset_opt` / `retrieve_array_subset_sharded_opt`.
//! Judged line by line by the model (`Model/Concurrency.lean`, `Driver/C16Conc.lean`).
use crate::util::*;
use std::collections::BTreeMap;
use std::ops::Bound;
use std::sync::Arc;
use zarrs::array::codec::{CodecOptions, CodecOptionsBuilder};
use zarrs::array::concurrency::{calc_concurrency_outer_inner, concurrency_chunks_and_codec, RecommendedConcurrency};
use zarrs::array::{Array, ArrayBuilder, ArrayShardedReadableExt, ArrayShardedReadableExtCache, DataType, FillValue};
use zarrs::array_subset::ArraySubset;
use zarrs::storage::store::MemoryStore;
use zarrs::storage::{ListableStorageTraits, ReadableStorageTraits, WritableStorageTraits};

fn show_max(n: usize) -> String { if n == usize::MAX { "inf".into() } else { n.to_string() } }
fn b01(b: bool) -> u8 { b as u8 }

/// the codec recommendation of the line: `rk` selects the `RangeBounds` form handed to `RecommendedConcurrency::new`
fn make_rec(kind: &str, rmin: usize, rmax: Option<usize>) -> Result<RecommendedConcurrency, String> {
    Ok(match (kind, rmax) {
        ("ho", Some(b)) => RecommendedConcurrency::new(rmin..b),
        ("ho", None) | ("from", _) => RecommendedConcurrency::new(rmin..),
        ("inc", Some(b)) => RecommendedConcurrency::new(rmin..=b),
        ("to", Some(b)) => RecommendedConcurrency::new(..b),
        ("toinc", Some(b)) => RecommendedConcurrency::new(..=b),
        ("full", _) => RecommendedConcurrency::new(..),
        ("xs", Some(b)) => RecommendedConcurrency::new((Bound::Excluded(rmin), Bound::Excluded(b))),
        ("xsinc", Some(b)) => RecommendedConcurrency::new((Bound::Excluded(rmin), Bound::Included(b))),
        ("xs", None) => RecommendedConcurrency::new((Bound::Excluded(rmin), Bound::Unbounded)),
        ("newmin", _) => RecommendedConcurrency::new_minimum(rmin),
        ("newmax", Some(b)) => RecommendedConcurrency::new_maximum(b),
        _ => return Err("bad-op".into()),
    })
}

fn build_array(k: u64) -> (Arc<MemoryStore>, Array<MemoryStore>) {
    let store = Arc::new(MemoryStore::new());
    let mut b = ArrayBuilder::new(vec![2 * k], DataType::UInt8, vec![2].try_into().unwrap(), FillValue::from(0u8));
    b.bytes_to_bytes_codecs(vec![Arc::new(zarrs::array::codec::Crc32cCodec::new())]);
    let array = b.build(store.clone(), "/").unwrap();
    (store, array)
}

fn chunk_keys(store: &MemoryStore) -> usize {
    store.list().unwrap_or_default().iter().filter(|k| !k.as_str().ends_with("zarr.json")).count()
}

fn e2e(k: u64, target: usize) -> String {
    let all_chunks = ArraySubset::new_with_ranges(&[0..k]);
    // (1) all-fill data with store_empty_chunks=true: every chunk must be written
    let wopts = CodecOptionsBuilder::new().store_empty_chunks(true).concurrent_target(target).build();
    let mut keys = vec![];
    {
        let (store, array) = build_array(k);
        let r = array.store_chunks_opt(&all_chunks, vec![0u8; 2 * k as usize], &wopts);
        keys.push(match r { Ok(()) => chunk_keys(&store).to_string(), Err(_) => "err".into() });
    }
    {
        let (store, array) = build_array(k);
        let r = array.store_array_subset_opt(&array.subset_all(), vec![0u8; 2 * k as usize], &wopts);
        keys.push(match r { Ok(()) => chunk_keys(&store).to_string(), Err(_) => "err".into() });
    }
    // (2) altered checksums: a read with validate_checksums=false succeeds (with the stored data), one with =true fails
    let (store, array) = build_array(k);
    let data: Vec<u8> = (0..2 * k).map(|i| (i % 250) as u8 + 1).collect();
    array.store_chunks_opt(&all_chunks, data.clone(), &CodecOptions::default()).unwrap();
    for key in store.list().unwrap_or_default().iter() {
        let mut v = store.get(key).unwrap().unwrap().to_vec();
        let n = v.len();
        v[n - 1] ^= 0x5a;
        store.set(key, v.into()).unwrap();
    }
    let mut reads = vec![];
    for validate in [false, true] {
        let ropts = CodecOptionsBuilder::new().validate_checksums(validate).concurrent_target(target).build();
        let judge = |r: Result<zarrs::array::ArrayBytes<'_>, zarrs::array::ArrayError>| -> &'static str {
            match r { Ok(b) => match b.into_fixed() { Ok(v) if v.as_ref() == data.as_slice() => "ok", _ => "wrong" }, Err(_) => "err" }
        };
        let cache = ArrayShardedReadableExtCache::new(&array);
        let rs = [
            judge(array.retrieve_chunks_opt(&all_chunks, &ropts)),
            judge(array.retrieve_array_subset_opt(&array.subset_all(), &ropts)),
            judge(array.retrieve_array_subset_sharded_opt(&cache, &array.subset_all(), &ropts)),
        ];
        reads.push(rs.join("/"));
    }
    format!(" e2e keys={} nv={} v={}", keys.join("/"), reads[0], reads[1])
}

pub fn exec(line: &str) -> String {
    let (_, m) = parse_line(line);
    guarded(|| {
        let get = |k: &str| -> Option<usize> { m.get(k).and_then(|s| s.parse().ok()) };
        let (Some(target), Some(chunks), Some(ccm), Some(rmin)) = (get("target"), get("chunks"), get("ccm"), get("rmin")) else { return "bad-op".into() };
        let rmax: Option<usize> = match m.get("rmax").map(|s| s.as_str()) { Some("inf") => None, Some(s) => match s.parse() { Ok(v) => Some(v), Err(_) => return "bad-op".into() }, None => return "bad-op".into() };
        let kind = m.get("rk").map(|s| s.as_str()).unwrap_or("ho");
        let o: Vec<usize> = match m.get("opts") { Some(s) => s.split(',').filter_map(|x| x.parse().ok()).collect(), None => return "bad-op".into() };
        if o.len() != 4 { return "bad-op".into(); }
        let rec = match make_rec(kind, rmin, rmax) { Ok(r) => r, Err(e) => return e };
        let opts = CodecOptionsBuilder::new().validate_checksums(o[0] != 0).store_empty_chunks(o[1] != 0).concurrent_target(o[2]).experimental_partial_encoding(o[3] != 0).build();
        let old_ccm = zarrs::config::global_config().chunk_concurrent_minimum();
        zarrs::config::global_config_mut().set_chunk_concurrent_minimum(ccm);
        let r = std::panic::catch_unwind(std::panic::AssertUnwindSafe(|| {
            let (lim, out) = concurrency_chunks_and_codec(target, chunks, &opts, &rec);
            // the chunk-loop recommendation rebuilt the way the function builds it, and the split called directly
            let crec = RecommendedConcurrency::new(std::cmp::min(ccm, chunks)..std::cmp::max(ccm, chunks));
            let (co, ci) = calc_concurrency_outer_inner(target, &crec, &rec);
            let mut s = format!("rec={},{} crec={},{} lim={} coi={},{} opts={},{},{},{}", rec.min(), show_max(rec.max()), crec.min(), show_max(crec.max()),
                lim, co, ci, b01(out.validate_checksums()), b01(out.store_empty_chunks()), out.concurrent_target(), b01(out.experimental_partial_encoding()));
            if let Some(k) = get("e2e") { s.push_str(&e2e(k as u64, target)); }
            s
        }));
        zarrs::config::global_config_mut().set_chunk_concurrent_minimum(old_ccm);
        match r { Ok(s) => s, Err(_) => "panic".into() }
    })
}

pub fn generate(tier: &str, seed: u64) -> Vec<String> {
    let mut rng = Rng::new(seed ^ 0xC16C);
    let n = if tier == "thorough" { 40000 } else { 3200 };
    let mut out = Vec::with_capacity(n);
    for i in 0..n {
        let target: u64 = match rng.below(10) {
            0 => *rng.pick(&[0u64, 64, 100, 1000, 65536, 1_000_000_007, 1 << 40]),
            _ => rng.range(1, 40),
        };
        let ccm: u64 = if rng.chance(1, 25) { 0 } else { rng.range(1, 8) };
        let chunks: u64 = match rng.below(8) { 0 => ccm, 1 => rng.range(0, 3), _ => rng.range(0, 70) };
        // the codec recommendation: every `RangeBounds` form, min = max, inverted, unbounded
        let (rk, rmin, rmax): (&str, u64, Option<u64>) = match rng.below(16) {
            0 | 1 | 2 => ("newmax", 0, Some(*rng.pick(&[0u64, 1, 1, 2, 3, 4, 6, 8, 16, 64, 1024]))),
            3 | 4 | 5 | 6 => { let a = rng.range(0, 6); ("ho", a, Some(a + rng.range(0, 9))) }
            7 => { let a = rng.range(0, 6); ("ho", a, Some(a)) }
            8 => { let a = rng.range(2, 9); ("ho", a, Some(rng.below(a))) }
            9 => ("ho", rng.range(0, 6), None),
            10 => ("newmin", rng.range(0, 12), None),
            11 => { let a = rng.range(0, 6); ("inc", a, Some(a + rng.range(0, 6))) }
            12 => ("toinc", 0, Some(rng.range(0, 9))),
            13 => ("full", 0, None),
            14 => { let a = rng.range(0, 5); (*rng.pick(&["xs", "xsinc"]), a, Some(a + rng.range(0, 7))) }
            _ => ("to", 0, Some(rng.range(0, 12))),
        };
        // all 16 option combinations: three flags x (ct equal to the target | another value)
        let c = i % 16;
        let ct = if c & 8 != 0 { target } else { rng.range(0, 33) };
        let opts = format!("{},{},{},{}", c & 1, (c >> 1) & 1, ct, (c >> 2) & 1);
        let mut l = format!("c16 conc target={} chunks={} ccm={} rmin={} rmax={} rk={} opts={}", target, chunks, ccm, rmin, rmax.map(|v| v.to_string()).unwrap_or("inf".into()), rk, opts);
        if i % 5 == 2 { l.push_str(&format!(" e2e={}", if rng.chance(2, 3) { 4 } else { rng.range(2, 9) })); }
        out.push(l);
    }
    out
}
