//! C05 on (nested) sharded codec chains, through a REAL array over a `MemoryStore`: whole histories of partial encodes
//! of ONE chunk (array shape == chunk shape), the raw stored value of the chunk read back from the store after every step.
//!
//! `c05 pes dtype=… es=… fill=<hex> ssh=<chunk shape> ishs=… locs=… iends=… icrcs=… a2as=… b2bs=… chain=<leaf toks> hist=<steps>`
//!     (the chain description of `c03 chains`, c03c.rs; `ishs=~` = no sharding level: the leaf chain alone)
//!     -> `val <o1>:<raw1>|<o2>:<raw2>|…`   one entry per step: `ok` / `err` / `panic`, then `none` or the stored bytes (hex)
//! steps, `;`-separated (every partial encode with `experimental_partial_encoding = true`):
//!   `s:<start>+<shape>:<elems>`                         `Array::store_chunk_subset_opt`
//!   `p:<start>+<shape>:<elems>&<start>+<shape>:<elems>…` ONE `partial_encode` call of a FRESH `Array::partial_encoder` (`p:` = no subset)
//!   `P:<call>/<call>/…`                                 several `partial_encode` calls (each as in `p`) of ONE partial encoder object
//!   `f:<elems>`                                         `Array::store_chunk_opt` (a full rewrite)
//!   `e`                                                 `Array::erase_chunk`
//! The driver (lean/ZarrsModel/Driver/C05Chain.lean) replays the history with `ChainS.partialEncode`, each step starting from
//! the implementation's previous stored value.
//! `c05 pesr …`: the same with `P` steps (a call `E` = the encoder's `erase()`): a partial encoder that is KEPT must behave like a
//! fresh one per call. Binding for unsharded chains and for chains whose outermost stage is the sharding codec (the cached
//! `shard_index` is the state the property names); chains with a stage in front of a sharding codec read through a partial
//! decoder created with the handle (known finding F-C05-K2).
use crate::arr::{dtypes, parse_elems, parse_subset, show_elems, to_array_bytes, DType};
use crate::c03c::codecs_json;
use crate::util::*;
use std::collections::BTreeMap;
use std::sync::Arc;
use zarrs::array::codec::CodecOptions;
use zarrs::array::{Array, ArrayBytes};
use zarrs::array_subset::ArraySubset;
use zarrs::storage::store::MemoryStore;
use zarrs::storage::{ReadableStorageTraits, ReadableWritableListableStorageTraits, StoreKey, WritableStorageTraits};

type Arr = Array<dyn ReadableWritableListableStorageTraits>;

fn fill_json(dtype: &str, fill: &[u8]) -> Option<String> {
    let dt = dtypes().into_iter().find(|d| d.name == dtype)?;
    dt.fills.iter().find(|f| f.1 == fill).map(|f| f.0.clone())
}

fn commas(xs: &[u64]) -> String { xs.iter().map(|x| x.to_string()).collect::<Vec<_>>().join(",") }

fn open(m: &BTreeMap<String, String>) -> Result<(Arc<MemoryStore>, Arr), String> {
    let codecs = codecs_json(m).ok_or("codecs")?;
    let ssh = pnl(&m["ssh"]);
    let fj = fill_json(&m["dtype"], &unhex(&m["fill"])).ok_or("fill")?;
    let meta = format!(
        "{{\"zarr_format\":3,\"node_type\":\"array\",\"shape\":[{}],\"data_type\":\"{}\",\"chunk_grid\":{{\"name\":\"regular\",\"configuration\":{{\"chunk_shape\":[{}]}}}},\"chunk_key_encoding\":{{\"name\":\"default\",\"configuration\":{{\"separator\":\"/\"}}}},\"fill_value\":{},\"codecs\":{}}}",
        commas(&ssh), m["dtype"], commas(&ssh), fj, codecs);
    let store = Arc::new(MemoryStore::new());
    store.set(&StoreKey::new("zarr.json").unwrap(), meta.into_bytes().into()).map_err(|e| e.to_string())?;
    let s: Arc<dyn ReadableWritableListableStorageTraits> = store.clone();
    let array = Array::open(s, "/").map_err(|e| format!("open: {}", e))?;
    Ok((store, array))
}

fn parse_writes(es: usize, s: &str) -> Vec<(ArraySubset, ArrayBytes<'static>)> {
    if s.is_empty() { return vec![]; }
    s.split('&').map(|w| { let (r, d) = w.split_once(':').unwrap(); (parse_subset(r), to_array_bytes(Some(es), &parse_elems(d))) }).collect()
}

fn res<E: std::fmt::Display>(r: Result<(), E>) -> String {
    match r { Ok(()) => "ok".into(), Err(e) => { let msg = e.to_string(); if std::env::var("VERIF_ERR_MSG").is_ok() { eprintln!("ERR: {}", msg); } "err".into() } }
}

fn run_step(array: &Arr, es: usize, idx: &[u64], step: &str) -> String {
    let mut popts = CodecOptions::default();
    popts.set_experimental_partial_encoding(true);
    if step == "e" { return res(array.erase_chunk(idx)); }
    let (kind, rest) = step.split_at(2);
    match kind {
        "f:" => res(array.store_chunk_opt(idx, to_array_bytes(Some(es), &parse_elems(rest)), &CodecOptions::default())),
        "s:" => {
            let (r, d) = rest.split_once(':').unwrap();
            res(array.store_chunk_subset_opt(idx, &parse_subset(r), to_array_bytes(Some(es), &parse_elems(d)), &popts))
        }
        "p:" => {
            let ws = parse_writes(es, rest);
            let refs: Vec<(&ArraySubset, ArrayBytes<'_>)> = ws.iter().map(|(r, b)| (r, b.clone())).collect();
            match array.partial_encoder(idx, &popts) {
                Ok(pe) => res(pe.partial_encode(&refs, &popts)),
                Err(e) => res::<zarrs::array::ArrayError>(Err(e)),
            }
        }
        "P:" => {
            let pe = match array.partial_encoder(idx, &popts) { Ok(pe) => pe, Err(e) => return res::<zarrs::array::ArrayError>(Err(e)) };
            let mut out = "ok".to_string();
            for call in rest.split('/') {
                if call == "E" { if pe.erase().is_err() { out = "err".into(); } continue; }
                let ws = parse_writes(es, call);
                let refs: Vec<(&ArraySubset, ArrayBytes<'_>)> = ws.iter().map(|(r, b)| (r, b.clone())).collect();
                if pe.partial_encode(&refs, &popts).is_err() { out = "err".into(); }
            }
            out
        }
        _ => "bad-step".into(),
    }
}

pub fn exec(line: &str) -> String {
    let (_, m) = parse_line(line);
    let opened = guarded_res(|| open(&m));
    let (store, array) = match opened { Ok(x) => x, Err(e) => return format!("err-open {}", e.replace(' ', "_")) };
    let es: usize = m["es"].parse().unwrap();
    let idx = vec![0u64; pnl(&m["ssh"]).len()];
    let key = array.chunk_key(&idx);
    let mut outs: Vec<String> = vec![];
    for step in m["hist"].split(';') {
        let o = guarded(|| run_step(&array, es, &idx, step));
        let raw = match store.get(&key) { Ok(Some(b)) => hex(&b), Ok(None) => "none".into(), Err(_) => "geterr".into() };
        outs.push(format!("{}:{}", o, raw));
    }
    format!("val {}", outs.join("|"))
}

// ---------------------------------------------------------------------------------------------------------------------
// generator

fn perm(rng: &mut Rng, rank: usize) -> Vec<u64> {
    let mut p: Vec<u64> = (0..rank as u64).collect();
    for i in (1..rank).rev() { let j = rng.below(i as u64 + 1) as usize; p.swap(i, j); }
    p
}

struct G<'a> {
    es: usize,
    fill: &'a [u8],
    ssh: Vec<u64>,
    /// the inner chunk shape of the outermost sharding level in the coordinates of the chunk (the chunk shape itself when unsharded)
    eff: Vec<u64>,
}

#[derive(Clone, Copy, PartialEq)]
enum Mode { Fill, NonFill, Mixed, Const }

impl<'a> G<'a> {
    fn nonfill(&self, rng: &mut Rng) -> Vec<u8> {
        let mut b = rng.bytes(self.es);
        if rng.chance(1, 3) { for x in b.iter_mut().skip(1) { *x = 0; } }
        if b == self.fill { b[0] ^= 0x55; }
        b
    }
    fn data(&self, rng: &mut Rng, n: u64, mode: Mode) -> Vec<Vec<u8>> {
        let c = self.nonfill(rng);
        (0..n).map(|_| match mode {
            Mode::Fill => self.fill.to_vec(),
            Mode::NonFill => self.nonfill(rng),
            Mode::Mixed => if rng.chance(3, 10) { self.fill.to_vec() } else { self.nonfill(rng) },
            Mode::Const => c.clone(),
        }).collect()
    }
    fn mode(&self, rng: &mut Rng) -> Mode { match rng.below(10) { 0 | 1 | 2 => Mode::Fill, 3 | 4 | 5 => Mode::NonFill, 6 | 7 | 8 => Mode::Mixed, _ => Mode::Const } }
    fn nm(&self, rng: &mut Rng) -> Mode { if rng.chance(1, 2) { Mode::NonFill } else { Mode::Mixed } }
    fn grid(&self) -> Vec<u64> { self.ssh.iter().zip(&self.eff).map(|(s, e)| s / e).collect() }
    fn whole(&self) -> (Vec<u64>, Vec<u64>) { (vec![0; self.ssh.len()], self.ssh.clone()) }
    fn rand(&self, rng: &mut Rng) -> (Vec<u64>, Vec<u64>) {
        let mut s = vec![]; let mut n = vec![];
        for &e in &self.ssh { let st = rng.below(e); s.push(st); n.push(if rng.chance(1, 14) { 0 } else { rng.range(1, e - st) }); }
        (s, n)
    }
    /// whole inner chunks of the outermost level
    fn aligned(&self, rng: &mut Rng) -> (Vec<u64>, Vec<u64>) {
        let mut s = vec![]; let mut n = vec![];
        for (g, e) in self.grid().iter().zip(&self.eff) { let a = rng.below(*g); let b = rng.range(a + 1, *g); s.push(a * e); n.push((b - a) * e); }
        (s, n)
    }
    fn one(&self, rng: &mut Rng, last: bool) -> (Vec<u64>, Vec<u64>) {
        let mut s = vec![];
        for (g, e) in self.grid().iter().zip(&self.eff) { let a = if last { g - 1 } else { rng.below(*g) }; s.push(a * e); }
        (s, self.eff.clone())
    }
    /// crossing an inner chunk boundary where there is one
    fn straddle(&self, rng: &mut Rng) -> (Vec<u64>, Vec<u64>) {
        let mut s = vec![]; let mut n = vec![];
        for ((g, e), &ext) in self.grid().iter().zip(&self.eff).zip(&self.ssh) {
            if *g >= 2 {
                let pos = rng.range(1, g - 1) * e;
                let st = pos - rng.range(1, *e); let en = pos + rng.range(1, *e);
                s.push(st); n.push(en - st);
            } else { let st = rng.below(ext); s.push(st); n.push(rng.range(1, ext - st)); }
        }
        (s, n)
    }
    fn subset(&self, rng: &mut Rng) -> (Vec<u64>, Vec<u64>) {
        match rng.below(12) { 0 | 1 | 2 | 3 => self.rand(rng), 4 | 5 => self.aligned(rng), 6 => self.one(rng, false), 7 => self.one(rng, true), 8 | 9 | 10 => self.straddle(rng), _ => self.whole() }
    }
    fn write(&self, rng: &mut Rng, r: &(Vec<u64>, Vec<u64>), mode: Mode) -> String {
        let d = self.data(rng, r.1.iter().product(), mode);
        format!("{}+{}:{}", nl(&r.0), nl(&r.1), show_elems(&d))
    }
    fn s(&self, rng: &mut Rng, r: &(Vec<u64>, Vec<u64>), mode: Mode) -> String { format!("s:{}", self.write(rng, r, mode)) }
    fn f(&self, rng: &mut Rng, mode: Mode) -> String { format!("f:{}", show_elems(&self.data(rng, self.ssh.iter().product(), mode))) }
    fn p(&self, rng: &mut Rng, k: u64) -> String {
        let mut ws: Vec<String> = vec![];
        let mut prev: Option<(Vec<u64>, Vec<u64>)> = None;
        for _ in 0..k {
            // overlapping on purpose: the same region again, or a region inside / around the previous one, or a fresh one
            let r = match (&prev, rng.below(4)) { (Some(p), 0) => p.clone(), (Some(_), 1) => self.straddle(rng), _ => self.subset(rng) };
            let mode = self.mode(rng);
            ws.push(self.write(rng, &r, mode));
            prev = Some(r);
        }
        format!("p:{}", ws.join("&"))
    }
    fn pcall(&self, rng: &mut Rng) -> String { let k = match rng.below(8) { 0 | 1 | 2 => 1, 3 | 4 => 2, 5 => 3, 6 => 4, _ => 2 }; self.p(rng, k) }
    /// a step the implementation must reject
    fn invalid(&self, rng: &mut Rng) -> String {
        let rank = self.ssh.len();
        let n_all: u64 = self.ssh.iter().product();
        let bad_count = |rng: &mut Rng, n: u64| -> u64 { match rng.below(3) { 0 if n >= 1 => n - 1, 1 if n >= 1 => 0, _ => n + 1 } };
        match rng.below(if rank == 0 { 3 } else { 9 }) {
            0 => { let n = bad_count(rng, n_all); format!("f:{}", show_elems(&self.data(rng, n, Mode::NonFill))) }
            1 | 2 => {
                // wrong number of elements, `s` or `p`
                let r = if rank == 0 { self.whole() } else { let mut r = self.rand(rng); if r == self.whole() && rng.chance(1, 2) { r = self.straddle(rng); } r };
                let n = bad_count(rng, r.1.iter().product());
                let w = format!("{}+{}:{}", nl(&r.0), nl(&r.1), show_elems(&self.data(rng, n, Mode::NonFill)));
                if rng.chance(1, 2) { format!("s:{}", w) } else if rng.chance(1, 2) { format!("p:{}", w) } else { let ok = self.subset(rng); format!("p:{}&{}", self.write(rng, &ok, Mode::NonFill), w) }
            }
            3 | 4 | 5 | 6 => {
                // out of bounds
                let mut r = self.rand(rng);
                let d = rng.below(rank as u64) as usize;
                r.1[d] = self.ssh[d] - r.0[d] + rng.range(1, 2);
                if rng.chance(1, 5) { r.0[d] = self.ssh[d] + rng.below(2); r.1[d] = rng.range(0, 2); }
                let w = self.write(rng, &r, Mode::NonFill);
                if rng.chance(1, 2) { format!("s:{}", w) } else if rng.chance(1, 2) { format!("p:{}", w) } else { let ok = self.subset(rng); format!("p:{}&{}", self.write(rng, &ok, Mode::NonFill), w) }
            }
            _ => {
                // wrong rank
                let mut r = self.rand(rng);
                if rng.chance(1, 2) { r.0.pop(); r.1.pop(); } else { r.0.push(0); r.1.push(1); }
                let w = self.write(rng, &r, Mode::NonFill);
                if rng.chance(1, 2) { format!("s:{}", w) } else { format!("p:{}", w) }
            }
        }
    }
    fn any_step(&self, rng: &mut Rng) -> String {
        match rng.below(20) {
            0..=7 => { let r = self.subset(rng); let m = self.mode(rng); self.s(rng, &r, m) }
            8..=12 => self.pcall(rng),
            13 | 14 => { let m = self.mode(rng); self.f(rng, m) }
            15 => "e".into(),
            16 | 17 => { let last = rng.chance(1, 2); let r = match rng.below(3) { 0 => self.aligned(rng), 1 => self.one(rng, last), _ => self.whole() }; self.s(rng, &r, Mode::Fill) }
            18 => self.invalid(rng),
            _ => if rng.chance(1, 4) { "p:".into() } else { let r = self.whole(); let m = self.mode(rng); format!("p:{}", self.write(rng, &r, m)) },
        }
    }
    fn history(&self, rng: &mut Rng) -> Vec<String> {
        let mut h: Vec<String> = vec![];
        match rng.below(12) {
            0..=3 => { for _ in 0..rng.range(1, 6) { h.push(self.any_step(rng)); } }
            4 | 5 => {
                // write an inner chunk, remove it, write it again (index at the end: the shard has to shrink in between)
                if rng.chance(1, 2) { let m = self.nm(rng); h.push(self.f(rng, m)); }
                else if rng.chance(1, 2) { let r = self.one(rng, false); h.push(self.s(rng, &r, Mode::NonFill)); }
                let last = rng.chance(1, 2); let x = self.one(rng, last);
                h.push(self.s(rng, &x, Mode::NonFill));
                if rng.chance(1, 2) { h.push(self.s(rng, &x, Mode::Fill)); } else { h.push(format!("p:{}", self.write(rng, &x, Mode::Fill))); }
                let m = self.nm(rng); h.push(self.s(rng, &x, m));
                if rng.chance(1, 2) { h.push(self.any_step(rng)); }
            }
            6 => {
                // everything back to the fill value, piece by piece, then data again
                let m = self.nm(rng); h.push(self.f(rng, m));
                for _ in 0..rng.range(1, 3) { let r = if rng.chance(1, 2) { self.aligned(rng) } else { self.straddle(rng) }; h.push(self.s(rng, &r, Mode::Fill)); }
                let w = self.whole();
                h.push(if rng.chance(1, 2) { format!("p:{}", self.write(rng, &w, Mode::Fill)) } else { self.s(rng, &w, Mode::Fill) });
                let r = self.subset(rng); h.push(self.s(rng, &r, Mode::NonFill));
            }
            7 | 8 => {
                // calls with several subsets
                if rng.chance(1, 2) { h.push(self.f(rng, Mode::Mixed)); }
                for _ in 0..rng.range(1, 3) { let k = rng.range(2, 4); h.push(self.p(rng, k)); }
                if rng.chance(1, 3) { let r = self.subset(rng); h.push(self.s(rng, &r, Mode::Mixed)); }
            }
            9 => {
                h.push(self.f(rng, Mode::Mixed));
                let r = self.subset(rng); let m = self.mode(rng); h.push(self.s(rng, &r, m));
                h.push("e".into());
                h.push(self.pcall(rng));
                let r = self.subset(rng); let m = self.mode(rng); h.push(self.s(rng, &r, m));
            }
            10 => {
                h.push(self.any_step(rng));
                h.push(self.invalid(rng));
                h.push(self.any_step(rng));
                if rng.chance(1, 2) { h.push(self.invalid(rng)); h.push(self.any_step(rng)); }
            }
            _ => {
                // whole-chunk subsets through both entry points
                for _ in 0..rng.range(1, 4) {
                    let w = self.whole(); let m = self.mode(rng);
                    h.push(if rng.chance(1, 2) { self.s(rng, &w, m) } else { format!("p:{}", self.write(rng, &w, m)) });
                    if rng.chance(1, 2) { let r = self.subset(rng); let m = self.mode(rng); h.push(self.s(rng, &r, m)); }
                }
            }
        }
        h.truncate(6);
        h
    }
}

/// a chain description (the keys of `c03 chains`) with zero, one or two sharding levels; returns (text, ssh, eff)
fn gen_chain(rng: &mut Rng, dt: &DType, fill: &[u8]) -> Option<(String, Vec<u64>, Vec<u64>)> {
    let es = dt.es.unwrap();
    let rank = if rng.chance(1, 25) { 0 } else { rng.range(1, 3) as usize };
    let nl_ = match rng.below(10) { 0 | 1 => 0usize, 2..=6 => 1, _ => 2 };
    let small = rank == 3 || nl_ == 2;
    let mut orders: Vec<Option<Vec<u64>>> = vec![];
    for _ in 0..nl_ { orders.push(if rank >= 2 && rng.chance(1, 3) { Some(perm(rng, rank)) } else { None }); }
    let mut ishs: Vec<Vec<u64>> = vec![vec![]; nl_];
    let ssh: Vec<u64>;
    if nl_ == 0 {
        ssh = (0..rank).map(|_| rng.range(1, if rank == 3 { 3 } else { 5 })).collect();
    } else {
        let innermost: Vec<u64> = (0..rank).map(|_| rng.range(1, if small { 2 } else { 3 })).collect();
        ishs[nl_ - 1] = innermost;
        let mut top: Vec<u64> = vec![];
        for lvl in (0..nl_).rev() {
            let hi = if rank == 1 && nl_ == 1 { 4 } else if small { 2 } else { 3 };
            let seen: Vec<u64> = ishs[lvl].iter().map(|&x| x * rng.range(1, hi)).collect();
            let decoded: Vec<u64> = match &orders[lvl] { Some(o) => { let mut s = vec![0; rank]; for (kk, &ax) in o.iter().enumerate() { s[ax as usize] = seen[kk]; } s } None => seen.clone() };
            if lvl == 0 { top = decoded; } else { ishs[lvl - 1] = decoded; }
        }
        ssh = top;
    }
    if ssh.iter().product::<u64>() > 64 { return None; }
    let eff: Vec<u64> = if nl_ == 0 { ssh.clone() } else {
        match &orders[0] { Some(o) => { let mut s = vec![0; rank]; for (kk, &ax) in o.iter().enumerate() { s[ax as usize] = ishs[0][kk]; } s } None => ishs[0].clone() }
    };
    let pick2 = |rng: &mut Rng, a: &'static str, b: &'static str| -> &'static str { if rng.chance(1, 2) { a } else { b } };
    let locs: Vec<&str> = (0..nl_).map(|_| pick2(rng, "end", "start")).collect();
    let iends: Vec<&str> = (0..nl_).map(|_| pick2(rng, "little", "big")).collect();
    let icrcs: Vec<&str> = (0..nl_).map(|_| pick2(rng, "1", "0")).collect();
    let a2as: Vec<String> = orders.iter().map(|o| match o { Some(o) => format!("transpose:{}", nl(o)), None => "-".to_string() }).collect();
    let b2bs: Vec<&str> = (0..nl_).map(|_| if rng.chance(1, 4) { "crc32c" } else { "-" }).collect();
    let mut toks: Vec<String> = vec![];
    if rank >= 1 && rng.chance(1, 3) { toks.push(format!("transpose:{}", nl(&perm(rng, rank)))); }
    let unit = if dt.name == "complex64" { 4 } else if dt.name.starts_with('r') { 1 } else { es };
    if es == 1 { toks.push("bytes:little:1:noendian".into()); } else { toks.push(format!("bytes:{}:{}", if rng.chance(1, 2) { "big" } else { "little" }, unit)); }
    for i in 0..rng.below(3) {
        match rng.below(3) { 0 if i == 0 => toks.push(format!("shuffle:{}", es)), _ => toks.push("crc32c".into()) }
    }
    let join = |v: &[&str]| if v.is_empty() { "-".to_string() } else { v.join(";") };
    let a2as_s = if a2as.is_empty() { "-".to_string() } else { a2as.join(";") };
    let base = format!("dtype={} es={} fill={} ssh={} ishs={} locs={} iends={} icrcs={} a2as={} b2bs={} chain={}",
        dt.name, es, hex(fill), nl(&ssh), nll(&ishs), join(&locs), join(&iends), join(&icrcs), a2as_s, join(&b2bs), toks.join("|"));
    Some((base, ssh, eff))
}

pub fn generate(tier: &str, seed: u64) -> Vec<String> {
    let mut rng = Rng::new(seed ^ 0xC05C);
    let ncases = if tier == "thorough" { 16000 } else { 3200 };
    // (own stream, so that the `pes` lines stay as they were) kept partial encoders
    let mut rr = Rng::new(seed ^ 0xC05C_4E);
    let dts: Vec<DType> = dtypes().into_iter().filter(|d| d.es.is_some() && d.name != "bool").collect();
    let mut out = vec![];
    let mut k = 0;
    let mut attempts = 0;
    while k < ncases && attempts < ncases * 20 {
        attempts += 1;
        let dt = rng.pick(&dts).clone();
        let fill = rng.pick(&dt.fills).clone();
        let (base, ssh, eff) = match gen_chain(&mut rng, &dt, &fill.1) { Some(x) => x, None => continue };
        let (_, m) = parse_line(&format!("c05 pes {}", base));
        if guarded_res(|| open(&m).map(|_| ())).is_err() { continue; }
        let g = G { es: dt.es.unwrap(), fill: &fill.1, ssh, eff };
        // several histories on one chain
        for _ in 0..rng.range(1, 3) {
            if k >= ncases { break; }
            let h = g.history(&mut rng);
            out.push(format!("c05 pes {} hist={}", base, h.join(";")));
            k += 1;
        }
        if rr.chance(1, 3) {
            // ONE partial encoder object for several consecutive calls
            let rng = &mut rr;
            let mut h: Vec<String> = vec![];
            if rng.chance(1, 2) { h.push(g.f(rng, Mode::Mixed)); }
            let calls: Vec<String> = (0..rng.range(2, 5)).map(|_| { if rng.chance(1, 6) { return "E".to_string(); } let r = if rng.chance(1, 2) { g.one(rng, false) } else { g.subset(rng) }; let m = if rng.chance(1, 4) { Mode::Fill } else { Mode::NonFill }; g.write(rng, &r, m) }).collect();
            h.push(format!("P:{}", calls.join("/")));
            if rng.chance(1, 2) { let r = g.subset(rng); h.push(g.s(rng, &r, Mode::NonFill)); }
            out.push(format!("c05 pesr {} hist={}", base, h.join(";")));
        }
    }
    out
}
