//! C12: specification conformance in both directions.
//!   direction w: `c12 cfg dir=w ver=3|2 store=memory path=<p> es=<n> meta=<hex>` opens the array; `c12 op <array op>` writes through
//!                the API; `c12 op dump` prints every stored chunk value (`kv key=hex;…`) for the specification-level reader.
//!   direction r: `c12 cfg dir=r …` starts an empty store; `c12 op put k= v=` stores raw values written by the
//!                specification-level writer (metadata included); `c12 op open`; reads go through the API.
use crate::arr::{self, ArrCtx};
use crate::c08::{make_store, DynStore, StoreCtx};
use crate::util::*;
use std::collections::BTreeMap;
use std::sync::Arc;
use zarrs::array::codec::CodecOptions;
use zarrs::array::Array;
use zarrs::storage::StoreKey;

pub struct C12Ctx { pub arr: Option<ArrCtx>, pub raw: Option<StoreCtx>, pub path: String, pub es: usize, pub ver: u8 }

fn meta_name(ver: u8) -> &'static str { if ver == 2 { ".zarray" } else { "zarr.json" } }
fn meta_key(path: &str, ver: u8) -> String { if path == "/" { meta_name(ver).to_string() } else { format!("{}/{}", &path[1..], meta_name(ver)) } }

fn open_array(store: StoreCtx, path: &str, es: usize) -> Result<ArrCtx, String> {
    let s: DynStore = store.store.clone();
    let array = Array::open(s, path).map_err(|e| format!("open: {}", e))?;
    Ok(ArrCtx { store, array: Arc::new(array), path: path.to_string(), es: Some(es), opts: CodecOptions::default() })
}

pub fn open_cfg(m: &BTreeMap<String, String>) -> Result<C12Ctx, String> {
    let path = m["path"].clone();
    let es: usize = m["es"].parse().unwrap();
    let ver: u8 = m["ver"].parse().unwrap();
    let store = make_store(&m["store"]);
    if m["dir"] == "w" {
        store.store.set(&StoreKey::new(meta_key(&path, ver)).unwrap(), unhex(&m["meta"]).into()).map_err(|e| e.to_string())?;
        let a = open_array(store, &path, es)?;
        Ok(C12Ctx { arr: Some(a), raw: None, path, es, ver })
    } else {
        Ok(C12Ctx { arr: None, raw: Some(store), path, es, ver })
    }
}

pub fn exec_op(ctx: &mut C12Ctx, verb: &str, m: &BTreeMap<String, String>) -> String {
    match verb {
        "put" => guarded(|| {
            let store = match (&ctx.raw, &ctx.arr) { (Some(s), _) => s.store.clone(), (None, Some(a)) => a.store.store.clone(), _ => return "bad-op".into() };
            match store.set(&StoreKey::new(m["k"].as_str()).unwrap(), unhex(&m["v"]).into()) { Ok(()) => "ok".into(), Err(_) => "err".into() }
        }),
        "open" => {
            let store = match ctx.raw.take() { Some(s) => s, None => return "bad-op".into() };
            let path = ctx.path.clone();
            let es = ctx.es;
            match guarded_res(|| open_array(store, &path, es)) {
                Ok(a) => { ctx.arr = Some(a); "ok".into() }
                Err(e) => { if std::env::var("VERIF_ERR_MSG").is_ok() { eprintln!("ERR: {}", e); } "err-open".into() }
            }
        }
        "dump" => guarded(|| {
            let a = match &ctx.arr { Some(a) => a, None => return "skip".into() };
            let mk = meta_key(&ctx.path, ctx.ver);
            let mut ks: Vec<String> = a.store.store.list().unwrap_or_default().iter().map(|k| k.as_str().to_string()).collect();
            ks.retain(|k| k != &mk);
            ks.sort();
            if ks.is_empty() { return "kv ~".into(); }
            let parts: Vec<String> = ks.iter().map(|k| format!("{}={}", k, hex(&a.store.store.get(&StoreKey::new(k.as_str()).unwrap()).unwrap().unwrap()))).collect();
            format!("kv {}", parts.join(";"))
        }),
        _ => match ctx.arr.as_mut() { Some(a) => arr::exec_op(a, verb, m), None => "skip".into() },
    }
}

// ---------------------------------------------------------------- generation (direction w)

fn perm(rng: &mut Rng, n: usize) -> Vec<usize> { let mut v: Vec<usize> = (0..n).collect(); for i in (1..n).rev() { let j = rng.below(i as u64 + 1) as usize; v.swap(i, j); } v }
fn jn<T: std::fmt::Display>(v: &[T]) -> String { format!("[{}]", v.iter().map(|x| x.to_string()).collect::<Vec<_>>().join(",")) }
fn b2b(rng: &mut Rng) -> Vec<&'static str> {
    match rng.below(6) { 0 | 1 => vec![], 2 => vec!["{\"name\":\"gzip\",\"configuration\":{\"level\":5}}"], 3 => vec!["{\"name\":\"crc32c\"}"],
        4 => vec!["{\"name\":\"gzip\",\"configuration\":{\"level\":1}}", "{\"name\":\"crc32c\"}"], _ => vec!["{\"name\":\"crc32c\"}", "{\"name\":\"gzip\",\"configuration\":{\"level\":9}}"] }
}
fn bytes_json(rng: &mut Rng) -> String { format!("{{\"name\":\"bytes\",\"configuration\":{{\"endian\":\"{}\"}}}}", if rng.chance(1, 2) { "big" } else { "little" }) }

const DTS: [(&str, &str, usize, &[(&str, &[u8])]); 5] = [
    ("complex64", "c8", 8, &[("[0.0,0.0]", &[0; 8]), ("[1.5,1.5]", &[0, 0, 0xc0, 0x3f, 0, 0, 0xc0, 0x3f])]),
    ("uint8", "u1", 1, &[("0", &[0]), ("7", &[7])]),
    ("int16", "i2", 2, &[("0", &[0, 0]), ("-2", &[0xfe, 0xff])]),
    ("float32", "f4", 4, &[("0.0", &[0, 0, 0, 0]), ("\"NaN\"", &[0, 0, 0xc0, 0x7f]), ("1.5", &[0, 0, 0xc0, 0x3f])]),
    ("uint64", "u8", 8, &[("0", &[0; 8]), ("72623859790382856", &[8, 7, 6, 5, 4, 3, 2, 1])]),
];

fn gen_ops(rng: &mut Rng, out: &mut Vec<String>, shape: &[u64], chunk: &[u64], es: usize, fill: &[u8], nops: u64) {
    let elem = |rng: &mut Rng| -> Vec<u8> { match rng.below(6) { 0 => fill.to_vec(), 1 | 2 => (0..es).map(|_| rng.below(4) as u8).collect(), _ => rng.bytes(es) } };
    let rank = shape.len();
    let grid: Vec<u64> = shape.iter().zip(chunk).map(|(s, c)| (s + c - 1) / c).collect();
    for _ in 0..nops {
        match rng.below(8) {
            0 | 1 | 2 | 3 => {
                let mut st = vec![]; let mut sh = vec![];
                for d in 0..rank { let s = rng.below(shape[d]); st.push(s); sh.push(rng.range(1, shape[d] - s)); }
                let n: u64 = sh.iter().product();
                let data: Vec<Vec<u8>> = (0..n).map(|_| elem(rng)).collect();
                out.push(format!("c12 op store_array_subset r={}+{} data={}", nl(&st), nl(&sh), arr::show_elems(&data)));
            }
            4 | 5 => {
                let c: Vec<u64> = grid.iter().map(|&g| rng.below(g)).collect();
                let n: u64 = chunk.iter().product();
                let all_fill = rng.chance(1, 5);
                let data: Vec<Vec<u8>> = (0..n).map(|_| if all_fill { fill.to_vec() } else { elem(rng) }).collect();
                out.push(format!("c12 op store_chunk c={} data={}", nl(&c), arr::show_elems(&data)));
            }
            6 => { let c: Vec<u64> = grid.iter().map(|&g| rng.below(g)).collect(); out.push(format!("c12 op erase_chunk c={}", nl(&c))); }
            _ => {
                let mut st = vec![]; let mut sh = vec![];
                for d in 0..rank { let s = rng.below(shape[d] + 1); st.push(s); sh.push(rng.below(shape[d] - s + 1)); }
                out.push(format!("c12 op retrieve_array_subset r={}+{}", nl(&st), nl(&sh)));
            }
        }
        if rng.chance(1, 3) { out.push("c12 op dump".into()); }
    }
    out.push("c12 op dump".into());
    out.push(format!("c12 op retrieve_array_subset r={}+{}", nl(&vec![0u64; rank]), nl(shape)));
}

/// `c12 inflate kind=gzip|zlib data=<hex>`: a real compressor's stream, decoded here by flate2 and by the model's own DEFLATE decoder
pub fn exec_inflate(m: &BTreeMap<String, String>) -> String {
    use std::io::Read;
    let data = unhex(&m["data"]);
    let mut out = vec![];
    let ok = if m["kind"] == "gzip" { flate2::read::GzDecoder::new(&data[..]).read_to_end(&mut out).is_ok() } else { flate2::read::ZlibDecoder::new(&data[..]).read_to_end(&mut out).is_ok() };
    if ok { format!("val {}", hex(&out)) } else { "none".into() }
}

pub fn generate(tier: &str, seed: u64) -> Vec<String> {
    let thorough = tier == "thorough";
    let mut rng = Rng::new(seed ^ 0xC12);
    let mut out = vec![];
    // the model's DEFLATE decoder against real compressor output (all block types, levels 0..9)
    for i in 0..(if thorough { 400 } else { 60 }) {
        use std::io::Write;
        let n = match i % 5 { 0 => rng.below(4), 1 => rng.below(64), 2 => rng.below(600), 3 => rng.below(3000), _ => 66000 + rng.below(100) } as usize;
        let alpha = *rng.pick(&[2u64, 4, 16, 256]);
        let data: Vec<u8> = if i % 7 == 0 { let unit: Vec<u8> = (0..rng.range(1, 9)).map(|_| rng.below(alpha) as u8).collect(); unit.iter().cycle().take(n).cloned().collect() } else { (0..n).map(|_| rng.below(alpha) as u8).collect() };
        let level = flate2::Compression::new(rng.below(10) as u32);
        let (kind, enc) = if rng.chance(1, 2) { let mut e = flate2::write::GzEncoder::new(vec![], level); e.write_all(&data).unwrap(); ("gzip", e.finish().unwrap()) }
            else { let mut e = flate2::write::ZlibEncoder::new(vec![], level); e.write_all(&data).unwrap(); ("zlib", e.finish().unwrap()) };
        out.push(format!("c12 inflate kind={} data={}", kind, hex(&enc)));
        if i % 10 == 0 && enc.len() > 12 { let mut bad = enc.clone(); let at = rng.range(10, bad.len() as u64 - 1) as usize; bad[at] ^= 1 << rng.below(8); out.push(format!("c12 inflate kind={} data={}", kind, hex(&bad))); }
    }
    let n = if thorough { 4000 } else { 400 };
    for i in 0..n {
        let rank = *rng.pick(&[0usize, 1, 1, 2, 2, 3]);
        let (mut dname, mut v2name, mut es, mut fills) = *rng.pick(&DTS);
        // complex64: V3 only, rank >= 1 (it is modelled as float32 with a trailing dimension)
        if dname == "complex64" && (i % 3 == 2 || rank == 0) { let d = DTS[3]; dname = d.0; v2name = d.1; es = d.2; fills = d.3; }
        let (fill_json, fill) = *rng.pick(fills);
        let path = *rng.pick(&["/", "/a", "/g/arr"]);
        if i % 3 != 2 {
            let chunk: Vec<u64> = (0..rank).map(|_| *rng.pick(&[1u64, 2, 3, 4, 6])).collect();
            let shape: Vec<u64> = chunk.iter().map(|&c| { let k = rng.below(3); let r = rng.below(c); c * k + r + if k == 0 && r == 0 { 1 } else { 0 } }).collect();
            let nt = if rank == 0 { 0 } else { *rng.pick(&[0, 0, 1, 2]) };
            let mut codecs: Vec<String> = vec![];
            let mut eshape = chunk.clone();
            for _ in 0..nt { let o = perm(&mut rng, rank); eshape = o.iter().map(|&a| eshape[a]).collect(); codecs.push(format!("{{\"name\":\"transpose\",\"configuration\":{{\"order\":{}}}}}", jn(&o))); }
            if rng.chance(1, 2) {
                let ishape: Vec<u64> = eshape.iter().map(|&d| { let ds: Vec<u64> = (1..=d).filter(|x| d % x == 0).collect(); *rng.pick(&ds) }).collect();
                let mut inner: Vec<String> = vec![];
                if rank > 0 && rng.chance(1, 3) { inner.push(format!("{{\"name\":\"transpose\",\"configuration\":{{\"order\":{}}}}}", jn(&perm(&mut rng, rank)))); }
                inner.push(bytes_json(&mut rng));
                for c in b2b(&mut rng) { inner.push(c.to_string()); }
                let mut idx = vec![bytes_json(&mut rng)];
                if rng.chance(1, 2) { idx.push("{\"name\":\"crc32c\"}".into()); }
                codecs.push(format!("{{\"name\":\"sharding_indexed\",\"configuration\":{{\"chunk_shape\":{},\"codecs\":[{}],\"index_codecs\":[{}],\"index_location\":\"{}\"}}}}",
                    jn(&ishape), inner.join(","), idx.join(","), if rng.chance(1, 2) { "end" } else { "start" }));
            } else { codecs.push(bytes_json(&mut rng)); }
            for c in b2b(&mut rng) { codecs.push(c.to_string()); }
            let (enc, sep) = *rng.pick(&[("default", "/"), ("default", "."), ("v2", "."), ("v2", "/")]);
            let meta = format!("{{\"zarr_format\":3,\"node_type\":\"array\",\"shape\":{},\"data_type\":\"{}\",\"chunk_grid\":{{\"name\":\"regular\",\"configuration\":{{\"chunk_shape\":{}}}}},\"chunk_key_encoding\":{{\"name\":\"{}\",\"configuration\":{{\"separator\":\"{}\"}}}},\"fill_value\":{},\"codecs\":[{}]}}",
                jn(&shape), dname, jn(&chunk), enc, sep, fill_json, codecs.join(","));
            out.push(format!("c12 cfg dir=w ver=3 store=memory path={} es={} meta={}", path, es, hex(meta.as_bytes())));
            let nops = rng.range(2, if thorough { 12 } else { 8 });
            gen_ops(&mut rng, &mut out, &shape, &chunk, es, fill, nops);
        } else {
            let chunk: Vec<u64> = (0..rank).map(|_| *rng.pick(&[1u64, 2, 3, 4])).collect();
            let shape: Vec<u64> = chunk.iter().map(|&c| { let k = rng.below(3); let r = rng.below(c); c * k + r + if k == 0 && r == 0 { 1 } else { 0 } }).collect();
            let endian = if es == 1 { "|" } else if rng.chance(1, 2) { ">" } else { "<" };
            let order = if rank > 0 && rng.chance(1, 2) { "F" } else { "C" };
            let comp = *rng.pick(&["null", "{\"id\":\"zlib\",\"level\":1}", "{\"id\":\"gzip\",\"level\":5}"]);
            let filters = *rng.pick(&["\"filters\":null,", "\"filters\":[],", ""]);
            let sep = *rng.pick(&["", "\"dimension_separator\":\".\",", "\"dimension_separator\":\"/\","]);
            let meta = format!("{{\"zarr_format\":2,\"shape\":{},\"chunks\":{},\"dtype\":\"{}{}\",\"compressor\":{},\"fill_value\":{},{}{}\"order\":\"{}\"}}",
                jn(&shape), jn(&chunk), endian, v2name, comp, fill_json, filters, sep, order);
            out.push(format!("c12 cfg dir=w ver=2 store=memory path={} es={} meta={}", path, es, hex(meta.as_bytes())));
            let nops = rng.range(2, if thorough { 12 } else { 8 });
            gen_ops(&mut rng, &mut out, &shape, &chunk, es, fill, nops);
        }
    }
    out
}

/// `c12 zinflate kind=gzip|zlib data=<hex> want=<hex>`: a container written by the specification-level DEFLATE WRITER
/// (`Zarrs.DeflateSpec`, streams flate2 itself would never produce), decoded by zarrs' OWN codecs: `GzipCodec::decode` /
/// `ZlibCodec::decode`, and once more through the codec's partial decoder over a store value (whole value and a byte range).
/// Outcome `val <hex>` when all paths agree, `none` when all fail, `mixed …` otherwise.
pub fn exec_zinflate(m: &BTreeMap<String, String>) -> String {
    use std::borrow::Cow;
    use zarrs::array::codec::{BytesToBytesCodecTraits, GzipCodec, StoragePartialDecoder, ZlibCodec};
    use zarrs::array::BytesRepresentation;
    use zarrs::byte_range::ByteRange;
    use zarrs::storage::{store::MemoryStore, ReadableStorageTraits, WritableStorageTraits};
    let data = unhex(&m["data"]);
    let gzip = m["kind"] == "gzip";
    guarded(move || {
        let codec: Arc<dyn BytesToBytesCodecTraits> = if gzip { Arc::new(GzipCodec::new(5).unwrap()) } else { Arc::new(ZlibCodec::new(1u32.try_into().unwrap())) };
        let opts = CodecOptions::default();
        let repr = BytesRepresentation::UnboundedSize;
        let whole = codec.decode(Cow::Borrowed(&data[..]), &repr, &opts).map(|b| b.into_owned()).ok();
        let store = Arc::new(MemoryStore::new());
        let key = StoreKey::new("v").unwrap();
        store.set(&key, data.clone().into()).unwrap();
        let rs: Arc<dyn ReadableStorageTraits> = store;
        let input = Arc::new(StoragePartialDecoder::new(rs, key));
        let part = match codec.clone().partial_decoder(input, &repr, &opts) {
            Ok(pd) => match pd.partial_decode(&[ByteRange::FromStart(0, None)], &opts) { Ok(Some(v)) => Some(v[0].to_vec()), _ => None },
            Err(_) => None,
        };
        match (whole, part) {
            (Some(a), Some(b)) if a == b => {
                // a byte range of the decoded value through the partial decoder
                if a.len() >= 2 {
                    let rs2 = Arc::new(MemoryStore::new());
                    rs2.set(&StoreKey::new("v").unwrap(), data.clone().into()).unwrap();
                    let rs2: Arc<dyn ReadableStorageTraits> = rs2;
                    let input = Arc::new(StoragePartialDecoder::new(rs2, StoreKey::new("v").unwrap()));
                    let (o, l) = (a.len() as u64 / 3, a.len() as u64 / 2);
                    let got = codec.clone().partial_decoder(input, &repr, &opts).ok().and_then(|pd| pd.partial_decode(&[ByteRange::FromStart(o, Some(l))], &opts).ok().flatten().map(|v| v[0].to_vec()));
                    if got.as_deref() != Some(&a[o as usize..(o + l) as usize]) { return format!("mixed range {}+{} of {}", o, l, hex(&a)); }
                }
                format!("val {}", hex(&a))
            }
            (None, None) => "none".into(),
            (a, b) => format!("mixed whole={} partial={}", a.map(|x| hex(&x)).unwrap_or("none".into()), b.map(|x| hex(&x)).unwrap_or("none".into())),
        }
    })
}
