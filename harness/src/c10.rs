//! C10: chunk grids. One stateless case per line.
use crate::util::*;
use std::cell::RefCell;
use std::num::NonZeroU64;
use std::sync::Arc;
use zarrs::array::chunk_grid::{ChunkGrid, ChunkGridTraits, RectangularChunkGrid, RegularChunkGrid};
use zarrs::array::{Array, ArrayBuilder, ChunkShape, DataType, FillValue};
use zarrs::storage::store::MemoryStore;
use zarrs::array_subset::ArraySubset;
use zarrs::metadata::v3::array::chunk_grid::rectangular::RectangularChunkGridDimensionConfiguration as DimCfg;
use zarrs::metadata::v3::MetadataV3;

fn nz(v: &[u64]) -> Vec<NonZeroU64> {
    v.iter().map(|&x| NonZeroU64::new(x).unwrap()).collect()
}

/// grid text: `R2,3` regular; otherwise dims separated by `;`: `f2` fixed, `v1,2` varying, `v-` empty; rank 0: `~`
fn parse_grid(s: &str, via_meta: bool) -> Option<ChunkGrid> {
    let g: ChunkGrid = if let Some(r) = s.strip_prefix('R') {
        ChunkGrid::new(RegularChunkGrid::new(nz(&pnl(r)).into()))
    } else {
        let dims: Vec<DimCfg> = if s == "~" { vec![] } else {
            s.split(';').map(|d| {
                if let Some(f) = d.strip_prefix('f') {
                    DimCfg::Fixed(NonZeroU64::new(f.parse().unwrap()).unwrap())
                } else {
                    DimCfg::Varying(nz(&pnl(&d[1..])).into())
                }
            }).collect()
        };
        ChunkGrid::new(RectangularChunkGrid::new(&dims))
    };
    if via_meta {
        let md = g.create_metadata();
        let text = serde_json::to_string(&md).ok()?;
        let md2: MetadataV3 = serde_json::from_str(&text).ok()?;
        ChunkGrid::from_metadata(&md2).ok()
    } else {
        Some(g)
    }
}

fn so<T, E>(r: Result<Option<T>, E>, f: impl Fn(&T) -> String) -> String {
    match r {
        Ok(Some(x)) => f(&x),
        Ok(None) => "none".into(),
        Err(_) => "err".into(),
    }
}
fn show_subset(s: &ArraySubset) -> String {
    format!("{}+{}", nl(s.start()), nl(s.shape()))
}

fn se<T, E>(r: Result<T, E>, f: impl Fn(&T) -> String) -> String {
    match r {
        Ok(x) => f(&x),
        Err(_) => "err".into(),
    }
}
fn o<T>(r: Option<T>, f: impl Fn(&T) -> String) -> String {
    match r {
        Some(x) => f(&x),
        None => "none".into(),
    }
}
fn nzl(x: &[NonZeroU64]) -> String {
    nl(&x.iter().map(|z| z.get()).collect::<Vec<_>>())
}

thread_local! {
    /// the array of the previous request (requests on the same grid/shape/route are consecutive)
    static LAST_ARRAY: RefCell<Option<(String, Option<Arc<Array<MemoryStore>>>)>> = RefCell::new(None);
}
/// an `Array` over the grid: `via=direct` builder with the shape, `via=meta` grid re-created from its metadata first,
/// `via=setshape` built with an all-zero shape, then `set_shape`
fn array_of(grid: &str, arr: &[u64], via: &str) -> Option<Arc<Array<MemoryStore>>> {
    let key = format!("{} {} {}", grid, nl(arr), via);
    if let Some(hit) = LAST_ARRAY.with(|c| c.borrow().as_ref().filter(|(k, _)| *k == key).map(|(_, a)| a.clone())) {
        return hit;
    }
    let built = (|| {
        let g = parse_grid(grid, via == "meta")?;
        let shape0 = if via == "setshape" { vec![0; arr.len()] } else { arr.to_vec() };
        let mut a = ArrayBuilder::new(shape0, DataType::UInt8, g, FillValue::from(0u8)).build(Arc::new(MemoryStore::new()), "/a").ok()?;
        if via == "setshape" { a.set_shape(arr.to_vec()); }
        Some(Arc::new(a))
    })();
    LAST_ARRAY.with(|c| *c.borrow_mut() = Some((key, built.clone())));
    built
}

/// the verbs added by the API-coverage audit: the `_unchecked` trait methods (called with matching ranks, except
/// `grid_shape_unchecked`, which asserts), the regular grid's accessors and `From` conversions, the `Array` methods
fn exec_api(verb: &str, m: &std::collections::BTreeMap<String, String>, g: &ChunkGrid, arr: &[u64]) -> Option<String> {
    let via = m.get("via").map(|s| s.as_str()).unwrap_or("direct");
    Some(match verb {
        "ugridshape" => format!("val {}", o(unsafe { g.grid_shape_unchecked(arr) }, |x| nl(x))),
        "uchunk" => {
            let c = pnl(&m["c"]);
            unsafe {
                format!(
                    "val origin={} shape={} shapenz={} subset={}",
                    o(g.chunk_origin_unchecked(&c, arr), |x| nl(x)),
                    o(g.chunk_shape_u64_unchecked(&c, arr), |x| nl(x)),
                    o(g.chunk_shape_unchecked(&c, arr), |x| nzl(x)),
                    o(g.subset_unchecked(&c, arr), show_subset)
                )
            }
        }
        "uelem" => {
            let i = pnl(&m["i"]);
            unsafe {
                format!(
                    "val cidx={} eidx={}",
                    o(g.chunk_indices_unchecked(&i, arr), |x| nl(x)),
                    o(g.chunk_element_indices_unchecked(&i, arr), |x| nl(x))
                )
            }
        }
        "regular" => {
            let cs = nz(&pnl(&m["grid"][1..]));
            let r = RegularChunkGrid::new(cs.clone().into());
            let gs = |g: ChunkGrid| se(g.grid_shape(arr), |x| o(x.clone(), |y| nl(y)));
            let shape: ChunkShape = cs.clone().into();
            let fromarr = match cs.len() {
                1 => { let a: [NonZeroU64; 1] = [cs[0]]; format!("{}/{}", gs(ChunkGrid::from(a)), gs(ChunkGrid::from(&a))) }
                2 => { let a: [NonZeroU64; 2] = [cs[0], cs[1]]; format!("{}/{}", gs(ChunkGrid::from(a)), gs(ChunkGrid::from(&a))) }
                _ => "skip".into(),
            };
            format!(
                "val cs={} u64={} toarr={} fromvec={} fromslice={} fromshape={} fromarr={} tryfrom={}",
                nzl(r.chunk_shape()),
                nl(&r.chunk_shape_u64()),
                nl(&zarrs::array::chunk_shape_to_array_shape(&cs)),
                gs(ChunkGrid::from(cs.clone())),
                gs(ChunkGrid::from(cs.as_slice())),
                gs(ChunkGrid::from(shape)),
                fromarr,
                match ChunkGrid::try_from(pnl(&m["raw"])) { Ok(g) => gs(g), Err(_) => "err".into() }
            )
        }
        "agridshape" | "achunk" | "aregion" | "achunks" => {
            let a = match array_of(&m["grid"], arr, via) { Some(a) => a, None => return Some("err-build".into()) };
            match verb {
                "agridshape" => format!("val {} all={} dim={} gdim={} shape={}", o(a.chunk_grid_shape(), |x| nl(x)), show_subset(&a.subset_all()), a.dimensionality(), a.chunk_grid().dimensionality(), nl(a.shape())),
                "achunk" => {
                    let c = pnl(&m["c"]);
                    format!(
                        "val origin={} shape={} usize={} repr={} subset={} bounded={}",
                        se(a.chunk_origin(&c), |x| nl(x)),
                        se(a.chunk_shape(&c), |x| nzl(x)),
                        se(a.chunk_shape_usize(&c), |x| nl(x)),
                        se(a.chunk_array_representation(&c), |x| nzl(x.shape())),
                        se(a.chunk_subset(&c), show_subset),
                        se(a.chunk_subset_bounded(&c), show_subset)
                    )
                }
                "aregion" => {
                    let r = ArraySubset::new_with_start_shape(pnl(&m["start"]), pnl(&m["shape"])).unwrap();
                    format!("val {}", se(a.chunks_in_array_subset(&r), |x| o(x.clone(), show_subset)))
                }
                _ => {
                    let r = ArraySubset::new_with_start_shape(pnl(&m["start"]), pnl(&m["shape"])).unwrap();
                    format!("val subset={} bounded={}", se(a.chunks_subset(&r), show_subset), se(a.chunks_subset_bounded(&r), show_subset))
                }
            }
        }
        _ => return None,
    })
}

pub fn exec(line: &str) -> String {
    let (v, m) = parse_line(line);
    let verb = v.get(1).map(|s| s.as_str()).unwrap_or("");
    guarded(|| {
        let g = match parse_grid(&m["grid"], m.get("via").map(|s| s == "meta").unwrap_or(false)) {
            Some(g) => g,
            None => return "err-meta".into(),
        };
        let arr = pnl(&m["arr"]);
        match verb {
            "gridshape" => format!("val {} dim={}", so(g.grid_shape(&arr), |x| nl(x)), g.dimensionality()),
            "chunk" => {
                let c = pnl(&m["c"]);
                format!(
                    "val origin={} shape={} shapenz={} subset={} inb={}",
                    so(g.chunk_origin(&c, &arr), |x| nl(x)),
                    so(g.chunk_shape_u64(&c, &arr), |x| nl(x)),
                    so(g.chunk_shape(&c, &arr), |x| nl(&x.iter().map(|z| z.get()).collect::<Vec<_>>())),
                    so(g.subset(&c, &arr), show_subset),
                    g.chunk_indices_inbounds(&c, &arr)
                )
            }
            "elem" => {
                let i = pnl(&m["i"]);
                format!(
                    "val cidx={} eidx={} inb={}",
                    so(g.chunk_indices(&i, &arr), |x| nl(x)),
                    so(g.chunk_element_indices(&i, &arr), |x| nl(x)),
                    g.array_indices_inbounds(&i, &arr)
                )
            }
            "region" => {
                let r = ArraySubset::new_with_start_shape(pnl(&m["start"]), pnl(&m["shape"])).unwrap();
                format!("val {}", so(g.chunks_in_array_subset(&r, &arr), show_subset))
            }
            "chunkssubset" => {
                let r = ArraySubset::new_with_start_shape(pnl(&m["start"]), pnl(&m["shape"])).unwrap();
                format!("val {}", so(g.chunks_subset(&r, &arr), show_subset))
            }
            other => exec_api(other, &m, &g, &arr).unwrap_or("bad-op".into()),
        }
    })
}

fn compositions(total: u64) -> Vec<Vec<u64>> {
    if total == 0 {
        return vec![vec![]];
    }
    let mut out = vec![];
    for first in 1..=total {
        for mut rest in compositions(total - first) {
            let mut v = vec![first];
            v.append(&mut rest);
            out.push(v);
        }
    }
    out
}

fn dim_text(d: &(bool, Vec<u64>)) -> String {
    if d.0 { format!("f{}", d.1[0]) } else { format!("v{}", nl(&d.1)) }
}

fn emit_grid_cases(out: &mut Vec<String>, rng: &mut Rng, grid: &str, arr: &[u64], counts: &[u64], dense: bool) {
    let rank = arr.len();
    for via in ["direct", "meta"] {
        let pre = format!("grid={} arr={} via={}", grid, nl(arr), via);
        out.push(format!("c10 gridshape {}", pre));
        // elements 0..=a+1 per dimension (product enumeration when dense, sampled otherwise)
        let mut elems: Vec<Vec<u64>> = vec![vec![]];
        for &a in arr {
            let mut nxt = vec![];
            for p in &elems { for e in 0..=(a + 1) { let mut q = p.clone(); q.push(e); nxt.push(q); } }
            elems = nxt;
        }
        let mut chunks: Vec<Vec<u64>> = vec![vec![]];
        for &c in counts {
            let mut nxt = vec![];
            for p in &chunks { for e in 0..=(c + 1) { let mut q = p.clone(); q.push(e); nxt.push(q); } }
            chunks = nxt;
        }
        let take = |v: Vec<Vec<u64>>, rng: &mut Rng| -> Vec<Vec<u64>> {
            if dense || v.len() <= 40 { v } else { (0..40).map(|_| rng.pick(&v).clone()).collect() }
        };
        if via == "meta" && !dense { continue; }
        for i in take(elems, rng) { out.push(format!("c10 elem {} i={}", pre, nl(&i))); }
        for c in take(chunks, rng) { out.push(format!("c10 chunk {} c={}", pre, nl(&c))); }
        // regions: in-bounds (start, shape), possibly empty
        let mut regs: Vec<(Vec<u64>, Vec<u64>)> = vec![(vec![], vec![])];
        for &a in arr {
            let mut nxt = vec![];
            for (s, n) in &regs {
                for st in 0..=a { for len in 0..=(a - st) {
                    let mut s2 = s.clone(); s2.push(st); let mut n2 = n.clone(); n2.push(len); nxt.push((s2, n2));
                } }
            }
            regs = nxt;
            if regs.len() > 20000 { break; }
        }
        let regs: Vec<(Vec<u64>, Vec<u64>)> = regs.into_iter().filter(|r| r.0.len() == rank).collect();
        let regs = if dense || regs.len() <= 60 { regs } else { (0..60).map(|_| rng.pick(&regs).clone()).collect() };
        for (s, n) in regs { out.push(format!("c10 region {} start={} shape={}", pre, nl(&s), nl(&n))); }
        // boxes of chunks
        let mut boxes: Vec<(Vec<u64>, Vec<u64>)> = vec![(vec![], vec![])];
        for &c in counts {
            let mut nxt = vec![];
            for (s, n) in &boxes {
                for st in 0..=c { for len in 0..=(c + 1 - st) {
                    let mut s2 = s.clone(); s2.push(st); let mut n2 = n.clone(); n2.push(len); nxt.push((s2, n2));
                } }
            }
            boxes = nxt;
            if boxes.len() > 20000 { break; }
        }
        let boxes: Vec<(Vec<u64>, Vec<u64>)> = boxes.into_iter().filter(|r| r.0.len() == rank).collect();
        let boxes = if boxes.len() <= 40 { boxes } else { (0..40).map(|_| rng.pick(&boxes).clone()).collect() };
        for (s, n) in boxes { out.push(format!("c10 chunkssubset {} start={} shape={}", pre, nl(&s), nl(&n))); }
    }
}

/// all (start, shape) boxes with start in 0..=hi[k] and start+shape <= hi[k]+slack; `None` beyond `cap` boxes
fn all_boxes(hi: &[u64], slack: u64, cap: usize) -> Option<Vec<(Vec<u64>, Vec<u64>)>> {
    let mut out: Vec<(Vec<u64>, Vec<u64>)> = vec![(vec![], vec![])];
    for &c in hi {
        let mut nxt = vec![];
        for (s, n) in &out {
            for st in 0..=c { for len in 0..=(c + slack - st) {
                let mut s2 = s.clone(); s2.push(st); let mut n2 = n.clone(); n2.push(len); nxt.push((s2, n2));
            } }
        }
        out = nxt;
        if out.len() > cap { return None; }
    }
    Some(out)
}
fn sample_box(rng: &mut Rng, hi: &[u64], slack: u64) -> (Vec<u64>, Vec<u64>) {
    let st: Vec<u64> = hi.iter().map(|&c| rng.below(c + 1)).collect();
    let n: Vec<u64> = hi.iter().zip(&st).map(|(&c, &s)| rng.below(c + slack - s + 1)).collect();
    (st, n)
}

/// the additions of the API-coverage audit for one grid/array shape: `_unchecked` trait methods and the `Array` methods
/// (every chunk, every box of chunks up to one past the grid, every in-bounds region when the case is small)
fn emit_api_cases(out: &mut Vec<String>, rng: &mut Rng, grid: &str, arr: &[u64], counts: &[u64], dense: bool) {
    let pre = format!("grid={} arr={} via=direct", grid, nl(arr));
    out.push(format!("c10 ugridshape {}", pre));
    let mut chunks: Vec<Vec<u64>> = vec![vec![]];
    for &c in counts {
        let mut nxt = vec![];
        for p in &chunks { for e in 0..=(c + 1) { let mut q = p.clone(); q.push(e); nxt.push(q); } }
        chunks = nxt;
    }
    let chunks: Vec<Vec<u64>> = if dense || chunks.len() <= 40 { chunks } else { (0..40).map(|_| rng.pick(&chunks).clone()).collect() };
    let mut elems: Vec<Vec<u64>> = vec![vec![]];
    for &a in arr {
        let mut nxt = vec![];
        for p in &elems { for e in 0..=(a + 1) { let mut q = p.clone(); q.push(e); nxt.push(q); } }
        elems = nxt;
    }
    let elems: Vec<Vec<u64>> = if dense || elems.len() <= 40 { elems } else { (0..40).map(|_| rng.pick(&elems).clone()).collect() };
    for c in &chunks { out.push(format!("c10 uchunk {} c={}", pre, nl(c))); }
    for i in &elems { out.push(format!("c10 uelem {} i={}", pre, nl(i))); }
    if let Some(r) = grid.strip_prefix('R') {
        let mut raw = pnl(r);
        if !raw.is_empty() && rng.chance(1, 4) { let k = rng.below(raw.len() as u64) as usize; raw[k] = 0; }
        out.push(format!("c10 regular {} raw={}", pre, nl(&raw)));
    }
    for via in ["direct", "meta", "setshape"] {
        if via != "direct" && !dense { continue; }
        let pre = format!("grid={} arr={} via={}", grid, nl(arr), via);
        out.push(format!("c10 agridshape {}", pre));
        for c in &chunks { out.push(format!("c10 achunk {} c={}", pre, nl(c))); }
        let boxes = match all_boxes(counts, 1, if via == "direct" { 1200 } else { 150 }) {
            Some(b) => b,
            None => (0..(if via == "direct" { 300 } else { 60 })).map(|_| sample_box(rng, counts, 1)).collect(),
        };
        for (s, n) in boxes { out.push(format!("c10 achunks {} start={} shape={}", pre, nl(&s), nl(&n))); }
        let regs = match all_boxes(arr, 0, if dense && via == "direct" { 1200 } else { 60 }) {
            Some(b) => b,
            None => (0..60).map(|_| sample_box(rng, arr, 0)).collect(),
        };
        for (s, n) in regs { out.push(format!("c10 aregion {} start={} shape={}", pre, nl(&s), nl(&n))); }
    }
}

pub fn generate(tier: &str, seed: u64) -> Vec<String> {
    let mut rng = Rng::new(seed);
    let thorough = tier == "thorough";
    let mut out = vec![];
    let max_a: u64 = if thorough { 8 } else { 7 };
    // 1-D: every dimension kind x every array extent (compatible and incompatible)
    let mut dims1: Vec<(bool, Vec<u64>)> = vec![];
    for s in 1..=3u64 { dims1.push((true, vec![s])); }
    for total in 0..=(if thorough { 7 } else { 6 }) { for c in compositions(total) { dims1.push((false, c)); } }
    for d in &dims1 {
        for a in 0..=max_a {
            let count = if d.0 { (a + d.1[0] - 1) / d.1[0] } else { d.1.len() as u64 };
            emit_grid_cases(&mut out, &mut rng, &dim_text(d), &[a], &[count], true);
            emit_api_cases(&mut out, &mut rng, &dim_text(d), &[a], &[count], true);
            if d.0 {
                emit_grid_cases(&mut out, &mut rng, &format!("R{}", d.1[0]), &[a], &[count], true);
                emit_api_cases(&mut out, &mut rng, &format!("R{}", d.1[0]), &[a], &[count], true);
            }
        }
    }
    // rank 0
    emit_grid_cases(&mut out, &mut rng, "~", &[], &[], true);
    emit_grid_cases(&mut out, &mut rng, "R-", &[], &[], true);
    emit_api_cases(&mut out, &mut rng, "~", &[], &[], true);
    emit_api_cases(&mut out, &mut rng, "R-", &[], &[], true);
    // 2-D / 3-D: mixed grids on compatible shapes (and a few incompatible), regular with ragged edges
    let n2 = if thorough { 1500 } else { 260 };
    for k in 0..n2 {
        let rank = if k % 4 == 3 { 3 } else { 2 };
        let regular = rng.chance(1, 3);
        let mut ds: Vec<(bool, Vec<u64>)> = vec![];
        for _ in 0..rank {
            if regular || rng.chance(1, 2) { ds.push((true, vec![rng.range(1, 3)])); }
            else { let t = rng.range(0, 5); let cs = compositions(t); ds.push((false, rng.pick(&cs).clone())); }
        }
        let arr: Vec<u64> = ds.iter().map(|d| if d.0 { rng.range(1, 6) } else if rng.chance(1, 12) { rng.range(0, 6) } else { d.1.iter().sum() }).collect();
        let counts: Vec<u64> = ds.iter().zip(&arr).map(|(d, &a)| if d.0 { (a + d.1[0] - 1) / d.1[0] } else { d.1.len() as u64 }).collect();
        let text = if regular && rng.chance(1, 2) { format!("R{}", nl(&ds.iter().map(|d| d.1[0]).collect::<Vec<_>>())) }
            else { ds.iter().map(dim_text).collect::<Vec<_>>().join(";") };
        let dense = rank == 2 && arr.iter().product::<u64>() <= 16;
        emit_grid_cases(&mut out, &mut rng, &text, &arr, &counts, dense);
        emit_api_cases(&mut out, &mut rng, &text, &arr, &counts, dense);
    }
    // rank mismatches
    for _ in 0..40 {
        let text = "f2;v1,2";
        let arr: Vec<u64> = (0..rng.range(0, 3)).map(|_| rng.range(1, 4)).collect();
        out.push(format!("c10 gridshape grid={} arr={} via=direct", text, nl(&arr)));
        let i: Vec<u64> = (0..rng.range(0, 3)).map(|_| rng.range(0, 4)).collect();
        out.push(format!("c10 elem grid={} arr={} via=direct i={}", text, nl(&arr), nl(&i)));
        out.push(format!("c10 chunk grid={} arr={} via=direct c={}", text, nl(&arr), nl(&i)));
        // the same mismatches through the `Array` methods (an array of another rank is refused at creation) and
        // `grid_shape_unchecked`, which asserts the rank
        out.push(format!("c10 ugridshape grid={} arr={} via=direct", text, nl(&arr)));
        out.push(format!("c10 agridshape grid={} arr={} via=direct", text, nl(&arr)));
        let arr2 = [rng.range(1, 5), 3];
        let sh: Vec<u64> = i.iter().map(|_| rng.range(0, 2)).collect();
        out.push(format!("c10 achunk grid={} arr={} via=direct c={}", text, nl(&arr2), nl(&i)));
        out.push(format!("c10 achunks grid={} arr={} via=direct start={} shape={}", text, nl(&arr2), nl(&i), nl(&sh)));
        out.push(format!("c10 aregion grid={} arr={} via=direct start={} shape={}", text, nl(&arr2), nl(&i), nl(&sh)));
        out.push(format!("c10 region grid={} arr={} via=direct start={} shape={}", text, nl(&arr2), nl(&i), nl(&sh)));
        out.push(format!("c10 chunkssubset grid={} arr={} via=direct start={} shape={}", text, nl(&arr2), nl(&i), nl(&sh)));
    }
    // large extents
    for _ in 0..(if thorough { 300 } else { 60 }) {
        let s = rng.range(1, 1 << 20);
        let a = rng.range(1, 1 << 40);
        let i = rng.below(a);
        out.push(format!("c10 gridshape grid=R{} arr={} via=direct", s, a));
        out.push(format!("c10 elem grid=R{} arr={} via=direct i={}", s, a, i));
        out.push(format!("c10 chunk grid=f{} arr={} via=direct c={}", s, a, i / s));
    }
    out
}
