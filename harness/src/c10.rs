//! C10: chunk grids. One stateless case per line.
use crate::util::*;
use std::num::NonZeroU64;
use zarrs::array::chunk_grid::{ChunkGrid, ChunkGridTraits, RectangularChunkGrid, RegularChunkGrid};
use zarrs::array_subset::ArraySubset;
use zarrs::metadata::v3::array::chunk_grid::rectangular::RectangularChunkGridDimensionConfiguration as DimCfg;
use zarrs::metadata::v3::MetadataV3;

fn nz(v: &[u64]) -> Vec<NonZeroU64> {
    v.iter().map(|&x| NonZeroU64::new(x).unwrap()).collect()
}

/// grid text: `R2,3` regular; otherwise dims separated by `;`: `f2` fixed, `v1,2` varying, `v-` empty; rank 0: `~`
fn parse_grid(s: &str, via_meta: bool) -> Option<ChunkGrid> {
    let g: ChunkGrid = if let Some(r) = s.strip_prefix('R') {
        ChunkGrid::new(RegularChunkGrid::new(nz(&pnl(r)).into()))
    } else {
        let dims: Vec<DimCfg> = if s == "~" { vec![] } else {
            s.split(';').map(|d| {
                if let Some(f) = d.strip_prefix('f') {
                    DimCfg::Fixed(NonZeroU64::new(f.parse().unwrap()).unwrap())
                } else {
                    DimCfg::Varying(nz(&pnl(&d[1..])).into())
                }
            }).collect()
        };
        ChunkGrid::new(RectangularChunkGrid::new(&dims))
    };
    if via_meta {
        let md = g.create_metadata();
        let text = serde_json::to_string(&md).ok()?;
        let md2: MetadataV3 = serde_json::from_str(&text).ok()?;
        ChunkGrid::from_metadata(&md2).ok()
    } else {
        Some(g)
    }
}

fn so<T, E>(r: Result<Option<T>, E>, f: impl Fn(&T) -> String) -> String {
    match r {
        Ok(Some(x)) => f(&x),
        Ok(None) => "none".into(),
        Err(_) => "err".into(),
    }
}
fn show_subset(s: &ArraySubset) -> String {
    format!("{}+{}", nl(s.start()), nl(s.shape()))
}

pub fn exec(line: &str) -> String {
    let (v, m) = parse_line(line);
    let verb = v.get(1).map(|s| s.as_str()).unwrap_or("");
    guarded(|| {
        let g = match parse_grid(&m["grid"], m.get("via").map(|s| s == "meta").unwrap_or(false)) {
            Some(g) => g,
            None => return "err-meta".into(),
        };
        let arr = pnl(&m["arr"]);
        match verb {
            "gridshape" => format!("val {} dim={}", so(g.grid_shape(&arr), |x| nl(x)), g.dimensionality()),
            "chunk" => {
                let c = pnl(&m["c"]);
                format!(
                    "val origin={} shape={} shapenz={} subset={} inb={}",
                    so(g.chunk_origin(&c, &arr), |x| nl(x)),
                    so(g.chunk_shape_u64(&c, &arr), |x| nl(x)),
                    so(g.chunk_shape(&c, &arr), |x| nl(&x.iter().map(|z| z.get()).collect::<Vec<_>>())),
                    so(g.subset(&c, &arr), show_subset),
                    g.chunk_indices_inbounds(&c, &arr)
                )
            }
            "elem" => {
                let i = pnl(&m["i"]);
                format!(
                    "val cidx={} eidx={} inb={}",
                    so(g.chunk_indices(&i, &arr), |x| nl(x)),
                    so(g.chunk_element_indices(&i, &arr), |x| nl(x)),
                    g.array_indices_inbounds(&i, &arr)
                )
            }
            "region" => {
                let r = ArraySubset::new_with_start_shape(pnl(&m["start"]), pnl(&m["shape"])).unwrap();
                format!("val {}", so(g.chunks_in_array_subset(&r, &arr), show_subset))
            }
            "chunkssubset" => {
                let r = ArraySubset::new_with_start_shape(pnl(&m["start"]), pnl(&m["shape"])).unwrap();
                format!("val {}", so(g.chunks_subset(&r, &arr), show_subset))
            }
            _ => "bad-op".into(),
        }
    })
}

fn compositions(total: u64) -> Vec<Vec<u64>> {
    if total == 0 {
        return vec![vec![]];
    }
    let mut out = vec![];
    for first in 1..=total {
        for mut rest in compositions(total - first) {
            let mut v = vec![first];
            v.append(&mut rest);
            out.push(v);
        }
    }
    out
}

fn dim_text(d: &(bool, Vec<u64>)) -> String {
    if d.0 { format!("f{}", d.1[0]) } else { format!("v{}", nl(&d.1)) }
}

fn emit_grid_cases(out: &mut Vec<String>, rng: &mut Rng, grid: &str, arr: &[u64], counts: &[u64], dense: bool) {
    let rank = arr.len();
    for via in ["direct", "meta"] {
        let pre = format!("grid={} arr={} via={}", grid, nl(arr), via);
        out.push(format!("c10 gridshape {}", pre));
        // elements 0..=a+1 per dimension (product enumeration when dense, sampled otherwise)
        let mut elems: Vec<Vec<u64>> = vec![vec![]];
        for &a in arr {
            let mut nxt = vec![];
            for p in &elems { for e in 0..=(a + 1) { let mut q = p.clone(); q.push(e); nxt.push(q); } }
            elems = nxt;
        }
        let mut chunks: Vec<Vec<u64>> = vec![vec![]];
        for &c in counts {
            let mut nxt = vec![];
            for p in &chunks { for e in 0..=(c + 1) { let mut q = p.clone(); q.push(e); nxt.push(q); } }
            chunks = nxt;
        }
        let take = |v: Vec<Vec<u64>>, rng: &mut Rng| -> Vec<Vec<u64>> {
            if dense || v.len() <= 40 { v } else { (0..40).map(|_| rng.pick(&v).clone()).collect() }
        };
        if via == "meta" && !dense { continue; }
        for i in take(elems, rng) { out.push(format!("c10 elem {} i={}", pre, nl(&i))); }
        for c in take(chunks, rng) { out.push(format!("c10 chunk {} c={}", pre, nl(&c))); }
        // regions: in-bounds (start, shape), possibly empty
        let mut regs: Vec<(Vec<u64>, Vec<u64>)> = vec![(vec![], vec![])];
        for &a in arr {
            let mut nxt = vec![];
            for (s, n) in &regs {
                for st in 0..=a { for len in 0..=(a - st) {
                    let mut s2 = s.clone(); s2.push(st); let mut n2 = n.clone(); n2.push(len); nxt.push((s2, n2));
                } }
            }
            regs = nxt;
            if regs.len() > 20000 { break; }
        }
        let regs: Vec<(Vec<u64>, Vec<u64>)> = regs.into_iter().filter(|r| r.0.len() == rank).collect();
        let regs = if dense || regs.len() <= 60 { regs } else { (0..60).map(|_| rng.pick(&regs).clone()).collect() };
        for (s, n) in regs { out.push(format!("c10 region {} start={} shape={}", pre, nl(&s), nl(&n))); }
        // boxes of chunks
        let mut boxes: Vec<(Vec<u64>, Vec<u64>)> = vec![(vec![], vec![])];
        for &c in counts {
            let mut nxt = vec![];
            for (s, n) in &boxes {
                for st in 0..=c { for len in 0..=(c + 1 - st) {
                    let mut s2 = s.clone(); s2.push(st); let mut n2 = n.clone(); n2.push(len); nxt.push((s2, n2));
                } }
            }
            boxes = nxt;
            if boxes.len() > 20000 { break; }
        }
        let boxes: Vec<(Vec<u64>, Vec<u64>)> = boxes.into_iter().filter(|r| r.0.len() == rank).collect();
        let boxes = if boxes.len() <= 40 { boxes } else { (0..40).map(|_| rng.pick(&boxes).clone()).collect() };
        for (s, n) in boxes { out.push(format!("c10 chunkssubset {} start={} shape={}", pre, nl(&s), nl(&n))); }
    }
}

pub fn generate(tier: &str, seed: u64) -> Vec<String> {
    let mut rng = Rng::new(seed);
    let thorough = tier == "thorough";
    let mut out = vec![];
    let max_a: u64 = if thorough { 8 } else { 7 };
    // 1-D: every dimension kind x every array extent (compatible and incompatible)
    let mut dims1: Vec<(bool, Vec<u64>)> = vec![];
    for s in 1..=3u64 { dims1.push((true, vec![s])); }
    for total in 0..=(if thorough { 7 } else { 6 }) { for c in compositions(total) { dims1.push((false, c)); } }
    for d in &dims1 {
        for a in 0..=max_a {
            let count = if d.0 { (a + d.1[0] - 1) / d.1[0] } else { d.1.len() as u64 };
            emit_grid_cases(&mut out, &mut rng, &dim_text(d), &[a], &[count], true);
            if d.0 { emit_grid_cases(&mut out, &mut rng, &format!("R{}", d.1[0]), &[a], &[count], true); }
        }
    }
    // rank 0
    emit_grid_cases(&mut out, &mut rng, "~", &[], &[], true);
    emit_grid_cases(&mut out, &mut rng, "R-", &[], &[], true);
    // 2-D / 3-D: mixed grids on compatible shapes (and a few incompatible), regular with ragged edges
    let n2 = if thorough { 1500 } else { 260 };
    for k in 0..n2 {
        let rank = if k % 4 == 3 { 3 } else { 2 };
        let regular = rng.chance(1, 3);
        let mut ds: Vec<(bool, Vec<u64>)> = vec![];
        for _ in 0..rank {
            if regular || rng.chance(1, 2) { ds.push((true, vec![rng.range(1, 3)])); }
            else { let t = rng.range(0, 5); let cs = compositions(t); ds.push((false, rng.pick(&cs).clone())); }
        }
        let arr: Vec<u64> = ds.iter().map(|d| if d.0 { rng.range(1, 6) } else if rng.chance(1, 12) { rng.range(0, 6) } else { d.1.iter().sum() }).collect();
        let counts: Vec<u64> = ds.iter().zip(&arr).map(|(d, &a)| if d.0 { (a + d.1[0] - 1) / d.1[0] } else { d.1.len() as u64 }).collect();
        let text = if regular && rng.chance(1, 2) { format!("R{}", nl(&ds.iter().map(|d| d.1[0]).collect::<Vec<_>>())) }
            else { ds.iter().map(dim_text).collect::<Vec<_>>().join(";") };
        let dense = rank == 2 && arr.iter().product::<u64>() <= 16;
        emit_grid_cases(&mut out, &mut rng, &text, &arr, &counts, dense);
    }
    // rank mismatches
    for _ in 0..40 {
        let text = "f2;v1,2";
        let arr: Vec<u64> = (0..rng.range(0, 3)).map(|_| rng.range(1, 4)).collect();
        out.push(format!("c10 gridshape grid={} arr={} via=direct", text, nl(&arr)));
        let i: Vec<u64> = (0..rng.range(0, 3)).map(|_| rng.range(0, 4)).collect();
        out.push(format!("c10 elem grid={} arr={} via=direct i={}", text, nl(&arr), nl(&i)));
        out.push(format!("c10 chunk grid={} arr={} via=direct c={}", text, nl(&arr), nl(&i)));
    }
    // large extents
    for _ in 0..(if thorough { 300 } else { 60 }) {
        let s = rng.range(1, 1 << 20);
        let a = rng.range(1, 1 << 40);
        let i = rng.below(a);
        out.push(format!("c10 gridshape grid=R{} arr={} via=direct", s, a));
        out.push(format!("c10 elem grid=R{} arr={} via=direct i={}", s, a, i));
        out.push(format!("c10 chunk grid=f{} arr={} via=direct c={}", s, a, i / s));
    }
    out
}
