//! Free-running stress lines (no scheduler hooks): races whose window lies INSIDE a helper that has no yield point, so that the
//! schedule enumeration of C18 / the interleaving model of C16 cannot reach them. A search aid, not a proof: a bounded
//! number of rounds with real threads; the outcome is `ok` or the first observation no sequential execution allows.
//!
//! `c18 stress store=fs rounds=<n> readers=<r>`: every round opens a FRESH `FilesystemStore` over a directory that already
//!     holds `a/k` = OLD, then races one `set(a/k, NEW)` against `r` reads (`get` / `size_key` / a ranged get): the FIRST
//!     accesses to the key in that store instance are concurrent. Every read must see OLD or NEW, whole.
//! `c16 fsrace rounds=<n>`: an array over a `FilesystemStore`; two client threads each store, read and erase THEIR OWN chunk
//!     ([0,0] and [0,1]: keys in one directory). Every operation must succeed and every read return what the thread wrote.
use crate::util::*;
use std::collections::BTreeMap;
use std::sync::{Arc, Barrier};
use zarrs::array::{ArrayBuilder, DataType, FillValue};
use zarrs::storage::byte_range::ByteRange;
use zarrs::storage::{ReadableStorageTraits, ReadableWritableListableStorageTraits, StoreKey, WritableStorageTraits};
use zarrs_filesystem::FilesystemStore;

/// `c18 stress store=mem rounds=<n> readers=<r>`: ONE ranged get with several ranges (as the sharding partial decoder issues)
/// races with whole-value sets of two uniform values: the ranges of one call must all come from the same value.
fn exec_c18_mem(rounds: usize, readers: usize) -> String {
    use zarrs::storage::store::MemoryStore;
    let store = Arc::new(MemoryStore::new());
    let key = StoreKey::new("a/k").unwrap();
    let n = 1usize << 19;
    store.set(&key, vec![0xAAu8; 2 * n].into()).unwrap();
    let stop = Arc::new(std::sync::atomic::AtomicBool::new(false));
    let barrier = Arc::new(Barrier::new(readers + 1));
    let mut hs = vec![];
    { let (s, k, b, st) = (store.clone(), key.clone(), barrier.clone(), stop.clone());
      hs.push(std::thread::spawn(move || { b.wait(); let mut i = 0u8; while !st.load(std::sync::atomic::Ordering::Relaxed) { i ^= 1; let v = vec![if i == 0 { 0xAAu8 } else { 0xBB }; 2 * n]; if s.set(&k, v.into()).is_err() { return "set failed".to_string(); } } String::new() })); }
    for _ in 0..readers {
        let (s, k, b) = (store.clone(), key.clone(), barrier.clone());
        hs.push(std::thread::spawn(move || {
            b.wait();
            for round in 0..rounds {
                match s.get_partial_values_key(&k, &[ByteRange::FromStart(0, Some(64)), ByteRange::FromStart(n as u64, Some(64)), ByteRange::Suffix(64)]) {
                    Ok(Some(v)) => { let first = v[0][0]; if v.iter().any(|p| p.iter().any(|&x| x != first)) { return format!("round={} one ranged get returned parts of two different values ({:02x} / {:02x} / {:02x})", round, v[0][0], v[1][0], v[2][0]); } }
                    Ok(None) => return "ranged get returned None".into(),
                    Err(e) => return format!("ranged get failed: {}", e),
                }
            }
            String::new()
        }));
    }
    let mut out = "ok".to_string();
    let writer = hs.remove(0);
    for h in hs { match h.join() { Ok(s) => if !s.is_empty() && out == "ok" { out = format!("bad {}", s.replace(' ', "_")); }, Err(_) => out = "bad panic".into() } }
    stop.store(true, std::sync::atomic::Ordering::Relaxed);
    if let Ok(s) = writer.join() { if !s.is_empty() && out == "ok" { out = format!("bad {}", s.replace(' ', "_")); } }
    out
}

pub fn exec_c18(m: &BTreeMap<String, String>) -> String {
    let rounds: usize = m["rounds"].parse().unwrap();
    let readers: usize = m["readers"].parse().unwrap();
    if m.get("store").map(|s| s == "mem").unwrap_or(false) { return exec_c18_mem(rounds, readers); }
    let d = crate::c08::scratch_dir("c18s");
    let key = StoreKey::new("a/k").unwrap();
    let old: Vec<u8> = vec![0x11; 262144];
    let new: Vec<u8> = vec![0x22; 4096];
    for round in 0..rounds {
        { let s = FilesystemStore::new(&d).unwrap(); s.set(&key, old.clone().into()).unwrap(); }
        let store = Arc::new(FilesystemStore::new(&d).unwrap());
        let barrier = Arc::new(Barrier::new(readers + 1));
        let mut hs = vec![];
        { let (s, k, b, v) = (store.clone(), key.clone(), barrier.clone(), new.clone());
          hs.push(std::thread::spawn(move || { b.wait(); match s.set(&k, v.into()) { Ok(()) => String::new(), Err(e) => format!("set failed: {}", e) } })); }
        for r in 0..readers {
            let (s, k, b, old, new) = (store.clone(), key.clone(), barrier.clone(), old.clone(), new.clone());
            hs.push(std::thread::spawn(move || {
                b.wait();
                match r % 3 {
                    0 => match s.get(&k) { Ok(Some(v)) => if *v == old[..] || *v == new[..] { String::new() } else { format!("get returned {} bytes that no set wrote (first {:02x}, last {:02x})", v.len(), v.first().copied().unwrap_or(0), v.last().copied().unwrap_or(0)) },
                        Ok(None) => "get returned None for a key that always exists".into(), Err(e) => format!("get failed: {}", e) },
                    1 => match s.size_key(&k) { Ok(Some(n)) => if n == old.len() as u64 || n == new.len() as u64 { String::new() } else { format!("size_key returned {}", n) }, Ok(None) => "size_key returned None".into(), Err(e) => format!("size_key failed: {}", e) },
                    _ => match s.get_partial_values_key(&k, &[ByteRange::FromStart(0, Some(4096))]) { Ok(Some(v)) => if v[0][..] == old[..4096] || v[0][..] == new[..] { String::new() } else { "ranged get returned bytes that no set wrote".into() },
                        Ok(None) => "ranged get returned None".into(), Err(e) => format!("ranged get failed: {}", e) },
                }
            }));
        }
        for h in hs { match h.join() { Ok(s) => if !s.is_empty() { let _ = std::fs::remove_dir_all(&d); return format!("bad round={} {}", round, s.replace(' ', "_")); }, Err(_) => { let _ = std::fs::remove_dir_all(&d); return format!("bad round={} panic", round); } } }
    }
    let _ = std::fs::remove_dir_all(&d);
    "ok".into()
}

pub fn exec_c16(m: &BTreeMap<String, String>) -> String {
    let rounds: usize = m["rounds"].parse().unwrap();
    let d = crate::c08::scratch_dir("c16r");
    let store: Arc<dyn ReadableWritableListableStorageTraits> = Arc::new(FilesystemStore::new(&d).unwrap());
    let array = match ArrayBuilder::new(vec![2, 4], DataType::UInt8, vec![2, 2].try_into().unwrap(), FillValue::from(0u8)).build(store, "/") { Ok(a) => Arc::new(a), Err(e) => return format!("err-build {}", e.to_string().replace(' ', "_")) };
    let barrier = Arc::new(Barrier::new(2));
    let mut hs = vec![];
    for t in 0..2u64 {
        let (a, b) = (array.clone(), barrier.clone());
        hs.push(std::thread::spawn(move || {
            let c = [0u64, t];
            b.wait();
            for round in 0..rounds {
                let data = vec![(round % 250) as u8 + 1; 4];
                if let Err(e) = a.store_chunk_elements(&c, &data) { return format!("round={} thread={} store_chunk failed: {}", round, t, e); }
                match a.retrieve_chunk_elements::<u8>(&c) { Ok(v) => if v != data { return format!("round={} thread={} read {:?}", round, t, v); }, Err(e) => return format!("round={} thread={} retrieve_chunk failed: {}", round, t, e) }
                if let Err(e) = a.erase_chunk(&c) { return format!("round={} thread={} erase_chunk failed: {}", round, t, e); }
            }
            String::new()
        }));
    }
    let mut out = "ok".to_string();
    for h in hs { match h.join() { Ok(s) => if !s.is_empty() && out == "ok" { out = format!("bad {}", s.replace(' ', "_")); }, Err(_) => out = "bad panic".into() } }
    let _ = std::fs::remove_dir_all(&d);
    out
}
