//! C01/C02/C04 for variable-length arrays (`string`, `bytes`): real single-chunk arrays over `vlen_v2` / `vlen-utf8` /
//! `vlen-bytes` / `vlen-array` / `zarrs.vlen` (both index types, both index byte orders, optional crc32c on index and
//! data) with transposes before and crc32c / fletcher32 after. The chunk is written through `store_chunk_opt`, the raw
//! stored value is dumped, and every line is stateless (it carries the raw value):
//!   `c02v key`  store the elements with elision on: `absent` or `present <raw hex>` (the model: element-wise fill test,
//!               byte-exact encoding); with `pad=` the value written has leading bytes before its first offset;
//!   `c02v dec`  `retrieve_chunk_opt` on the raw value (the model: `ChainV.decode`), also truncated / bit-flipped values;
//!   `c02v pd`   `partial_decoder(chunk).partial_decode(regions)` for every sub-box of the chunk, random region lists,
//!               empty regions, regions of the wrong rank or outside the chunk, corrupted values (the model:
//!               `ChainV.partialDecoder` over `storeHandle raw`).
use crate::arr::*;
use crate::util::*;
use std::collections::BTreeMap;

fn a2a_json(s: &str) -> Option<Vec<String>> {
    if s == "-" { return Some(vec![]); }
    s.split('|').map(|tok| {
        let p: Vec<&str> = tok.split(':').collect();
        match p[0] {
            "transpose" => Some(format!("{{\"name\":\"transpose\",\"configuration\":{{\"order\":[{}]}}}}", p[1])),
            _ => None,
        }
    }).collect()
}
fn b2b_json(s: &str) -> Option<Vec<String>> {
    if s == "-" { return Some(vec![]); }
    s.split('|').map(|tok| match tok {
        "crc32c" => Some("{\"name\":\"crc32c\"}".to_string()),
        "fletcher32" => Some("{\"name\":\"numcodecs.fletcher32\"}".to_string()),
        _ => None,
    }).collect()
}
/// `vlenv2:<registered name>` | `vlen:<32|64>:<little|big>:<index crc32c 0|1>:<data crc32c 0|1>`
fn codec_json(s: &str) -> Option<String> {
    let p: Vec<&str> = s.split(':').collect();
    match p[0] {
        "vlenv2" => Some(format!("{{\"name\":\"{}\"}}", p[1])),
        "vlen" => {
            let ic = format!("{{\"name\":\"bytes\",\"configuration\":{{\"endian\":\"{}\"}}}}{}", p[2], if p[3] == "1" { ",{\"name\":\"crc32c\"}" } else { "" });
            let dc = format!("{{\"name\":\"bytes\"}}{}", if p[4] == "1" { ",{\"name\":\"crc32c\"}" } else { "" });
            Some(format!("{{\"name\":\"zarrs.vlen\",\"configuration\":{{\"index_codecs\":[{}],\"data_codecs\":[{}],\"index_data_type\":\"{}\"}}}}", ic, dc, if p[1] == "64" { "uint64" } else { "uint32" }))
        }
        _ => None,
    }
}

fn open(m: &BTreeMap<String, String>) -> Result<ArrCtx, String> {
    let sh = pnl(&m["sh"]);
    let shape = sh.iter().map(|x| x.to_string()).collect::<Vec<_>>().join(",");
    let mut codecs = a2a_json(&m["a2a"]).ok_or("a2a")?;
    codecs.push(codec_json(&m["codec"]).ok_or("codec")?);
    codecs.extend(b2b_json(&m["b2b"]).ok_or("b2b")?);
    let meta = format!(
        "{{\"zarr_format\":3,\"node_type\":\"array\",\"shape\":[{}],\"data_type\":\"{}\",\"chunk_grid\":{{\"name\":\"regular\",\"configuration\":{{\"chunk_shape\":[{}]}}}},\"chunk_key_encoding\":{{\"name\":\"default\",\"configuration\":{{\"separator\":\"/\"}}}},\"fill_value\":{},\"codecs\":[{}]}}",
        shape, m["dtype"], shape, String::from_utf8(unhex(&m["fillj"])).unwrap(), codecs.join(","));
    let mut mm = BTreeMap::new();
    mm.insert("store".to_string(), "memory".to_string());
    mm.insert("path".to_string(), "/a".to_string());
    mm.insert("meta".to_string(), hex(meta.as_bytes()));
    mm.insert("es".to_string(), "v".to_string());
    open_ctx(&mm)
}

fn err_msg<E: std::fmt::Display>(e: &E) { if std::env::var("VERIF_ERR_MSG").is_ok() { eprintln!("ERR: {}", e); } }

pub fn exec(line: &str) -> String {
    let (v, m) = parse_line(line);
    let verb = v.get(1).cloned().unwrap_or_default();
    guarded(|| {
        use zarrs::storage::{ReadableStorageTraits, WritableStorageTraits};
        let ctx = match open(&m) { Ok(c) => c, Err(e) => { err_msg(&e); return "err-open".into() } };
        let a = ctx.array.clone();
        let c = vec![0u64; pnl(&m["sh"]).len()];
        match verb.as_str() {
            "key" => {
                let data = parse_elems(&m["data"]);
                // `pad`: a value whose first offset is not 0 (leading bytes that belong to no element)
                let ab = match m.get("pad") {
                    None => to_array_bytes(None, &data),
                    Some(p) => {
                        let mut bytes = unhex(p);
                        let mut offs = vec![bytes.len()];
                        for x in &data { bytes.extend_from_slice(x); offs.push(bytes.len()); }
                        zarrs::array::ArrayBytes::new_vlen(bytes, zarrs::array::RawBytesOffsets::new(offs).unwrap()).unwrap()
                    }
                };
                match a.store_chunk_opt(&c, ab, &ctx.opts) { Ok(()) => {}, Err(e) => { err_msg(&e); return "err".into() } }
                match ctx.store.store.get(&a.chunk_key(&c)) { Ok(Some(b)) => format!("present {}", hex(&b)), Ok(None) => "absent".into(), Err(_) => "err-get".into() }
            }
            "dec" | "pd" => {
                if m["raw"] != "absent" {
                    if ctx.store.store.set(&a.chunk_key(&c), unhex(&m["raw"]).into()).is_err() { return "err-set".into(); }
                }
                if verb == "dec" {
                    return match a.retrieve_chunk_opt(&c, &ctx.opts) { Ok(b) => format!("val {}", show_elems(&from_array_bytes(None, b))), Err(e) => { err_msg(&e); "err".into() } };
                }
                let rs: Vec<_> = m["rs"].split('|').map(parse_subset).collect();
                let pd = match a.partial_decoder_opt(&c, &ctx.opts) { Ok(p) => p, Err(e) => { err_msg(&e); return "err".into() } };
                let parts = match pd.partial_decode(&rs, &ctx.opts) { Ok(p) => p, Err(e) => { err_msg(&e); return "err".into() } };
                let parts: Vec<Vec<Vec<u8>>> = parts.into_iter().map(|b| from_array_bytes(None, b)).collect();
                format!("val {}", parts.iter().map(|p| show_elems(p)).collect::<Vec<_>>().join("|"))
            }
            _ => "bad-op".into(),
        }
    })
}

fn all_boxes(shape: &[u64]) -> Vec<(Vec<u64>, Vec<u64>)> {
    let mut out: Vec<(Vec<u64>, Vec<u64>)> = vec![(vec![], vec![])];
    for &a in shape {
        let mut nxt = vec![];
        for (s, n) in &out { for st in 0..a { for len in 1..=(a - st) { let mut s2 = s.clone(); s2.push(st); let mut n2 = n.clone(); n2.push(len); nxt.push((s2, n2)); } } }
        out = nxt;
    }
    out
}

fn perm(rng: &mut Rng, rank: usize) -> Vec<u64> {
    let mut p: Vec<u64> = (0..rank as u64).collect();
    for i in (1..rank).rev() { let j = rng.below(i as u64 + 1) as usize; p.swap(i, j); }
    p
}

fn gen_elem(rng: &mut Rng, string: bool, fill: &[u8]) -> Vec<u8> {
    match rng.below(8) {
        0 | 1 => fill.to_vec(),
        2 => vec![],
        // the fill value twice / a prefix of it: elements whose bytes look like fill values
        3 if !fill.is_empty() => { let mut v = fill.to_vec(); v.extend_from_slice(fill); v }
        4 if fill.len() > 1 => fill[..fill.len() - 1].to_vec(),
        _ => { let n = rng.range(1, 5) as usize; (0..n).map(|_| if string { 0x20 + rng.below(0x5f) as u8 } else { rng.next() as u8 }).collect() }
    }
}

pub fn generate(tier: &str, seed: u64) -> Vec<String> {
    let mut rng = Rng::new(seed ^ 0xC02F);
    let thorough = tier == "thorough";
    let ncases = if thorough { 500 } else { 140 };
    let dts: Vec<DType> = dtypes().into_iter().filter(|d| d.es.is_none()).collect();
    let mut out = vec![];
    let mut k = 0;
    let mut attempts = 0;
    while k < ncases && attempts < ncases * 20 {
        attempts += 1;
        let dt = rng.pick(&dts).clone();
        let string = dt.name == "string";
        let fill = if string && rng.chance(1, 4) { ("\"abc\"".to_string(), b"abc".to_vec()) } else { rng.pick(&dt.fills).clone() };
        let rank = rng.range(1, 3) as usize;
        let sh: Vec<u64> = (0..rank).map(|_| rng.range(1, if rank == 3 { 2 } else { 4 })).collect();
        let nt = if rank >= 2 { rng.below(3) } else { rng.below(2) };
        let a2a = if nt == 0 { "-".to_string() } else { (0..nt).map(|_| format!("transpose:{}", nl(&perm(&mut rng, rank)))).collect::<Vec<_>>().join("|") };
        let codec = match rng.below(6) {
            0 => "vlenv2:zarrs.vlen_v2".to_string(),
            1 => format!("vlenv2:{}", if string { "vlen-utf8" } else { "vlen-bytes" }),
            2 => "vlenv2:vlen-array".to_string(),
            _ => format!("vlen:{}:{}:{}:{}", if rng.chance(1, 2) { 64 } else { 32 }, if rng.chance(1, 2) { "big" } else { "little" }, rng.chance(1, 3) as u8, rng.chance(1, 3) as u8),
        };
        let nb = rng.below(3);
        let b2b = if nb == 0 { "-".to_string() } else { (0..nb).map(|_| if rng.chance(2, 3) { "crc32c" } else { "fletcher32" }).collect::<Vec<_>>().join("|") };
        let base = format!("dtype={} fill={} fillj={} sh={} a2a={} codec={} b2b={}", dt.name, hex(&fill.1), hex(fill.0.as_bytes()), nl(&sh), a2a, codec, b2b);
        let (_, m) = parse_line(&format!("c02v pd {}", base));
        let ctx = match guarded_res(|| open(&m)) { Ok(c) => c, Err(_) => continue };
        let nel: u64 = sh.iter().product();
        // data: random elements; now and then all fill; now and then elements that are not the fill value but whose
        // concatenation is the fill value repeated (`["abab", "", ..]`)
        let mode = rng.below(10);
        let mut data: Vec<Vec<u8>> = (0..nel).map(|_| gen_elem(&mut rng, string, &fill.1)).collect();
        if mode == 0 { data = (0..nel).map(|_| fill.1.clone()).collect(); }
        if mode == 1 && nel >= 2 && !fill.1.is_empty() {
            data = (0..nel).map(|_| fill.1.clone()).collect();
            let i = rng.below(nel - 1) as usize;
            let mut two = fill.1.clone(); two.extend_from_slice(&fill.1);
            data[i] = two; data[i + 1] = vec![];
        }
        let c = vec![0u64; rank];
        let a = ctx.array.clone();
        let stored = guarded(|| match a.store_chunk_opt(&c, to_array_bytes(None, &data), &ctx.opts) { Ok(()) => "ok".into(), Err(_) => "err".into() });
        if stored != "ok" { continue; }
        use zarrs::storage::ReadableStorageTraits;
        let raw: Option<Vec<u8>> = match ctx.store.store.get(&a.chunk_key(&c)) { Ok(Some(b)) => Some(b.to_vec()), Ok(None) => None, Err(_) => continue };
        k += 1;
        let rawh = match &raw { Some(b) => hex(b), None => "absent".to_string() };
        out.push(format!("c02v key {} data={}", base, show_elems(&data)));
        if rng.chance(1, 3) { let n = rng.range(1, 4) as usize; out.push(format!("c02v key {} data={} pad={}", base, show_elems(&data), hex(&rng.bytes(n)))); }
        out.push(format!("c02v dec {} corrupt=0 data={} raw={}", base, show_elems(&data), rawh));
        let good = format!("c02v pd {} corrupt=0 data={} raw={}", base, show_elems(&data), rawh);
        let boxes = all_boxes(&sh);
        let pick: Vec<(Vec<u64>, Vec<u64>)> = if boxes.len() <= 100 { boxes.clone() } else { (0..50).map(|_| rng.pick(&boxes).clone()).collect() };
        for (s, n) in &pick { out.push(format!("{} rs={}+{}", good, nl(s), nl(n))); }
        for _ in 0..(if thorough { 8 } else { 4 }) {
            let cnt = rng.range(2, 4);
            let mut rs: Vec<String> = (0..cnt).map(|_| { let (s, n) = rng.pick(&boxes).clone(); format!("{}+{}", nl(&s), nl(&n)) }).collect();
            if rng.chance(1, 3) {
                let (s, mut n) = rng.pick(&boxes).clone(); let d = rng.below(rank as u64) as usize; n[d] = 0;
                let at = rng.below(rs.len() as u64 + 1) as usize; rs.insert(at, format!("{}+{}", nl(&s), nl(&n)));
            }
            out.push(format!("{} rs={}", good, rs.join("|")));
        }
        // a region of the wrong rank, regions outside the chunk
        out.push(format!("{} oob=1 rs={}+{}", good, nl(&vec![0u64; rank + 1]), nl(&vec![1u64; rank + 1])));
        for _ in 0..2 {
            let d = rng.below(rank as u64) as usize;
            let (mut s, mut n) = rng.pick(&boxes).clone();
            if rng.chance(1, 2) { s[d] = sh[d] + rng.below(2); n[d] = 1; } else { n[d] = sh[d] - s[d] + rng.range(1, 2); }
            out.push(format!("{} oob=1 rs={}+{}", good, nl(&s), nl(&n)));
        }
        // corrupted values: truncations and single flipped bits
        if let Some(rawv) = &raw {
            for _ in 0..(if thorough { 6 } else { 3 }) {
                let mut v = rawv.clone();
                if rng.chance(1, 2) { let cut = rng.below(v.len() as u64) as usize; v.truncate(cut); }
                else { let at = rng.below(v.len() as u64) as usize; v[at] ^= 1 << rng.below(8); }
                let bad = format!("{} corrupt=1 raw={}", base, hex(&v));
                out.push(format!("c02v dec {}", bad));
                let (s, n) = rng.pick(&boxes).clone();
                out.push(format!("c02v pd {} rs={}+{}", bad, nl(&s), nl(&n)));
            }
        }
    }
    out
}
