//! C14: fill values through the metadata round trip. One stateless case per line.
//!   c14 rt dtype=<name> fv=<hex native bytes>      -> json=<hex text> back=<hex> | err-tometa | err-ser | err-parse | err-frommeta
//!   c14 arr dtype=<name> fv=<hex native bytes>     -> val <hex> (fill value of the array re-opened from its stored zarr.json) | err-*
//!   c14 parse dtype=<name> text=<hex JSON text>    -> val <hex> | rej-parse | rej
use crate::util::*;
use std::sync::Arc;
use zarrs::array::{Array, ArrayBuilder, DataType, FillValue};
use zarrs::metadata::v3::array::fill_value::FillValueMetadataV3;
use zarrs::metadata::v3::MetadataV3;
use zarrs::storage::store::MemoryStore;
use zarrs::storage::ReadableWritableListableStorage;

fn dtype(name: &str) -> DataType {
    let md: MetadataV3 = serde_json::from_str(&format!("\"{}\"", name)).unwrap();
    DataType::from_metadata(&md, &Default::default()).unwrap()
}

pub fn exec(line: &str) -> String {
    let (v, m) = parse_line(line);
    let verb = v.get(1).map(|s| s.as_str()).unwrap_or("");
    guarded(|| {
        let dt = dtype(&m["dtype"]);
        match verb {
            "rt" => {
                let fv = FillValue::new(unhex(&m["fv"]));
                let md = match dt.metadata_fill_value(&fv) { Ok(x) => x, Err(_) => return "err-tometa".into() };
                let text = match serde_json::to_string(&md) { Ok(x) => x, Err(_) => return "err-ser".into() };
                let md2: FillValueMetadataV3 = match serde_json::from_slice(text.as_bytes()) { Ok(x) => x, Err(_) => return format!("err-parse json={}", hex(text.as_bytes())) };
                match dt.fill_value_from_metadata(&md2) {
                    Ok(b) => format!("json={} back={}", hex(text.as_bytes()), hex(b.as_ne_bytes())),
                    Err(_) => format!("err-frommeta json={}", hex(text.as_bytes())),
                }
            }
            "arr" => {
                let fv = FillValue::new(unhex(&m["fv"]));
                let store: ReadableWritableListableStorage = Arc::new(MemoryStore::new());
                let arr = match ArrayBuilder::new(vec![2], dt.clone(), vec![1].try_into().unwrap(), fv).build(store.clone(), "/a") {
                    Ok(a) => a, Err(_) => return "err-build".into() };
                if arr.store_metadata().is_err() { return "err-store".into(); }
                match Array::open(store, "/a") {
                    Ok(a) => format!("val {}", hex(a.fill_value().as_ne_bytes())),
                    Err(_) => "err-open".into(),
                }
            }
            "parse" => {
                let text = unhex(&m["text"]);
                let md: FillValueMetadataV3 = match serde_json::from_slice(&text) { Ok(x) => x, Err(_) => return "rej-parse".into() };
                match dt.fill_value_from_metadata(&md) {
                    Ok(b) => format!("val {}", hex(b.as_ne_bytes())),
                    Err(_) => "rej".into(),
                }
            }
            _ => "bad-op".into(),
        }
    })
}

const INTS: [(&str, usize); 8] = [("int8", 1), ("int16", 2), ("int32", 4), ("int64", 8), ("uint8", 1), ("uint16", 2), ("uint32", 4), ("uint64", 8)];
const FLOATS: [(&str, usize, u32, u32); 4] = [("float16", 2, 5, 10), ("bfloat16", 2, 8, 7), ("float32", 4, 8, 23), ("float64", 8, 11, 52)];

fn le(v: u64, n: usize) -> Vec<u8> { v.to_le_bytes()[..n].to_vec() }

/// boundary-stratified and random bit patterns of a float format
fn float_patterns(rng: &mut Rng, eb: u32, mb: u32, nrand: usize) -> Vec<u64> {
    let bits = 1 + eb + mb;
    let sign = 1u64 << (bits - 1);
    let emax = (1u64 << eb) - 1;
    let inf = emax << mb;
    let mmask = (1u64 << mb) - 1;
    let mut mags: Vec<u64> = vec![0, 1, 2, mmask - 1, mmask, mmask + 1, mmask + 2, inf - 1, inf - 2, inf, inf + 1, inf + 2,
        inf + (1 << (mb - 1)), inf + (1 << (mb - 1)) + 1, inf + (1 << (mb - 1)) - 1, inf + mmask, inf + mmask - 1];
    // one, powers of two and their neighbours, decimal-looking values
    let bias = (1u64 << (eb - 1)) - 1;
    for e in [1, 2, bias - 1, bias, bias + 1, bias + mb as u64, bias + mb as u64 + 1, emax - 1] {
        if e >= 1 && e < emax { for m in [0, 1, mmask, mmask / 2, mmask / 3, mmask / 5 * 4] { mags.push((e << mb) | m); } }
    }
    for _ in 0..nrand {
        let sel = rng.below(6);
        let e = match sel { 0 => 0, 1 => emax, 2 => rng.range(bias.saturating_sub(12), (bias + 12).min(emax - 1)), _ => rng.below(emax + 1) };
        let sel = rng.below(4);
        let m = match sel { 0 => rng.below(16), 1 => mmask - rng.below(16), _ => rng.next() & mmask };
        mags.push((e << mb) | m);
    }
    let mut out = vec![];
    for m in mags { out.push(m); out.push(m | sign); }
    out
}

/// floats whose shortest decimal text is short (0.1, 2.5e-3, 1e23 …), as patterns of the format
fn decimal_floats(rng: &mut Rng, name: &str, n: usize) -> Vec<u64> {
    let mut out = vec![];
    for _ in 0..n {
        let digits = rng.range(1, 999999) as f64;
        let e = rng.range(0, 60) as i32 - 30;
        let v = digits * 10f64.powi(e) * if rng.chance(1, 2) { -1.0 } else { 1.0 };
        out.push(match name {
            "float64" => v.to_bits(),
            "float32" => (v as f32).to_bits() as u64,
            "float16" => half::f16::from_f64(v).to_bits() as u64,
            _ => half::bf16::from_f64(v).to_bits() as u64,
        });
    }
    for v in [9007199254740993f64, 1e23, 8.5e-324, 2.2250738585072011e-308, 2.2250738585072014e-308, 1.7976931348623157e308, 0.1, 0.3, 1e21, 1e-7, 123456789012345680000.0, 5e-324, 1e16, 1e15, 0.000001, 0.0000001] {
        out.push(match name { "float64" => v.to_bits(), "float32" => (v as f32).to_bits() as u64, "float16" => half::f16::from_f64(v).to_bits() as u64, _ => half::bf16::from_f64(v).to_bits() as u64 });
    }
    out
}

fn rand_utf8(rng: &mut Rng) -> Vec<u8> {
    let n = rng.below(8);
    let mut s = String::new();
    for _ in 0..n {
        let c = match rng.below(9) {
            0 => *rng.pick(&['"', '\\', '/', '\n', '\r', '\t', '\u{8}', '\u{c}', '\0', '\u{1f}', '\u{7f}']),
            1 => char::from_u32(rng.below(0x20) as u32).unwrap(),
            2 => char::from_u32(rng.range(0x80, 0x7ff) as u32).unwrap(),
            3 => char::from_u32(rng.range(0x800, 0xd7ff) as u32).unwrap(),
            4 => char::from_u32(rng.range(0xe000, 0xffff) as u32).unwrap(),
            5 => char::from_u32(rng.range(0x10000, 0x10ffff) as u32).unwrap(),
            _ => char::from_u32(rng.range(0x20, 0x7e) as u32).unwrap(),
        };
        s.push(c);
    }
    if rng.chance(1, 12) { s = rng.pick(&["Infinity", "-Infinity", "NaN", "0x7fc00000", "null", "true", "[1]", "\\u0000"]).to_string(); }
    s.into_bytes()
}

fn parse_texts(rng: &mut Rng, nrand: usize) -> Vec<Vec<u8>> {
    let mut t: Vec<Vec<u8>> = vec![];
    let fixed = [
        "null", "true", "false", "0", "1", "2", "-1", "127", "128", "-128", "-129", "255", "256", "32767", "32768", "-32768", "-32769", "65535", "65536",
        "2147483647", "2147483648", "-2147483648", "-2147483649", "4294967295", "4294967296", "9223372036854775807", "9223372036854775808",
        "-9223372036854775808", "-9223372036854775809", "18446744073709551615", "18446744073709551616", "340282366920938463463374607431768211456",
        "1.0", "1.5", "0.5", "1e2", "1E2", "1e0", "-0", "-0.0", "0.0", "1e400", "-1e400", "1e-400", "1e39", "3.5e38", "3.4028235e38", "3.4028236e38", "65504", "65519.99", "65520", "1e5",
        "3.3895313892515355e38", "3.39e38", "1e-46", "7e-46", "1e-8", "5.960464477539063e-8", "2.9802322387695312e-8", "2.98023223876953125e-8", "2.9802322387695313e-8", "1.00048828125", "1.000488281250000001", "1.0004882812499999",
        "1.00390625", "1.003906250000000000000000000000001", "1.0117187500000000001", "1.01171875",
        "\"Infinity\"", "\"-Infinity\"", "\"NaN\"", "\"nan\"", "\"inf\"", "\"+Infinity\"", "\"infinity\"", "\"-NaN\"", "\"\"", "\"a\"", "\"1\"", "\"true\"",
        "\"0x7fc00000\"", "\"0x7FC00000\"", "\"0X7fc00000\"", "\"0x7fc0\"", "\"0x7e00\"", "\"0x7ff8000000000000\"", "\"0x\"", "\"0xzz\"", "\"0x7fc000000\"", "\"0x7fc0000\"", "\"0x+f\"", "\"0x-1\"", "\"0x7fc0 \"",
        "\"0x\u{e9}1\"", "\"0xa\u{e9}1\"", "\"0x\u{e9}\u{e9}\"", "\"7fc00000\"", "\"0x3f800000\"", "\"0x3c00\"", "\"0x00\"", "\"0xffffffffffffffff\"",
        "[]", "[0]", "[1]", "[1,2]", "[1, 2]", "[1,2,3]", "[0,0,0,0]", "[255]", "[256]", "[-1]", "[1.0]", "[1.5,2]", "[\"NaN\",0]", "[\"Infinity\",\"-Infinity\"]", "[\"0x7fc00001\",\"0xffc00001\"]", "[1,\"x\"]", "[1,null]",
        "[[1]]", "[[1,2]]", "[true]", "[1,2,3,4,5,6,7,8]", "[1e400,0]", "[0,1e39]", "{}", "{\"a\":1}", "{\"a\":1,\"a\":2}", "[{}]",
        "[1,", "01", "+1", ".5", "1.", "1e", "1e+", "-", "\"abc", "nul", "", " ", " 1 ", "\t[ 1 ,2 ]\n", "1 2", "tru", "[1 2]", "[1,]", "[,1]", "{\"a\"}", "{\"a\":}", "{a:1}", "'a'",
        "\"\\ud800\"", "\"\\udc00\"", "\"\\ud83d\\ude00\"", "\"\\ud83d\\u0041\"", "\"\\u00e9\"", "\"\\u0000\"", "\"\\x41\"", "\"\\a\"", "\"a\nb\"", "\"\\/\"", "\"\\b\\f\\n\\r\\t\\\"\\\\\"", "NaN", "Infinity", "-Infinity",
    ];
    for s in fixed { t.push(s.as_bytes().to_vec()); }
    t.push(vec![b'"', 0xff, b'"']);
    t.push(vec![b'"', 0xc3, b'"']);
    t.push(vec![b'"', 0xc3, 0xa9, b'"']);
    t.push(vec![b'"', 0xed, 0xa0, 0x80, b'"']);
    t.push(vec![b'"', 0xc0, 0x80, b'"']);
    t.push(vec![b'"', 0xf4, 0x90, 0x80, 0x80, b'"']);
    for _ in 0..nrand {
        // random decimal numbers of every shape
        let mut s = String::new();
        if rng.chance(1, 3) { s.push('-'); }
        let hi = if rng.chance(1, 4) { 40 } else { 9 };
        let nd = rng.range(1, hi);
        for i in 0..nd { let d = if i == 0 && nd > 1 { rng.range(1, 9) } else { rng.below(10) }; s.push((b'0' + d as u8) as char); }
        if rng.chance(1, 2) { s.push('.'); let hi = if rng.chance(1, 4) { 30 } else { 6 }; for _ in 0..rng.range(1, hi) { s.push((b'0' + rng.below(10) as u8) as char); } }
        if rng.chance(1, 2) { s.push(*rng.pick(&['e', 'E'])); if rng.chance(1, 2) { s.push(*rng.pick(&['-', '+'])); } s.push_str(&format!("{}", if rng.chance(1, 8) { rng.below(400) } else { rng.below(45) })); }
        t.push(s.into_bytes());
    }
    for _ in 0..nrand / 4 {
        // near-ties for narrow formats: a representable binary16/bfloat16/binary32 midpoint nudged in its last decimal digit
        let v = match rng.below(3) {
            0 => { let a = half::f16::from_bits(rng.below(0x7bff) as u16); let b = half::f16::from_bits(a.to_bits() + 1); (a.to_f64() + b.to_f64()) / 2.0 }
            1 => { let a = half::bf16::from_bits(rng.below(0x7f7f) as u16); let b = half::bf16::from_bits(a.to_bits() + 1); (a.to_f64() + b.to_f64()) / 2.0 }
            _ => { let a = f32::from_bits(rng.below(0x7f7fffff) as u32); let b = f32::from_bits(a.to_bits() + 1); (a as f64 + b as f64) / 2.0 }
        };
        let v = match rng.below(3) { 0 => v, 1 => f64::from_bits(v.to_bits() + 1), _ => f64::from_bits(v.to_bits().saturating_sub(1)) };
        t.push(serde_json::to_string(&v).unwrap().into_bytes());
    }
    for _ in 0..nrand / 4 {
        // mutate a valid text
        let mut b = rng.pick(&fixed).as_bytes().to_vec();
        if b.is_empty() { continue; }
        let i = rng.below(b.len() as u64) as usize;
        match rng.below(3) { 0 => { b[i] = rng.next() as u8; } 1 => { b.remove(i); } _ => { b.insert(i, *rng.pick(&[b' ', b',', b'"', b'0', b'-', b'e', b'.', b'[', b']', b'\\', b'x'])); } }
        t.push(b);
    }
    t
}

pub fn generate(tier: &str, seed: u64) -> Vec<String> {
    let thorough = tier == "thorough";
    let mut rng = Rng::new(seed ^ 0xC14);
    let mut out: Vec<String> = vec![];
    let mut rt = |out: &mut Vec<String>, name: &str, fv: &[u8], arr: bool| {
        out.push(format!("c14 rt dtype={} fv={}", name, hex(fv)));
        if arr { out.push(format!("c14 arr dtype={} fv={}", name, hex(fv))); }
    };
    // every 8-bit pattern of every 8-bit type
    for b in 0..=255u8 { for name in ["bool", "int8", "uint8", "r8"] { rt(&mut out, name, &[b], thorough || b % 16 < 2); } }
    // every 16-bit pattern of the 16-bit float formats; the 16-bit integers exhaustively in the thorough tier
    for b in 0..=0xffffu32 {
        for name in ["float16", "bfloat16"] { rt(&mut out, name, &le(b as u64, 2), thorough && b % 97 == 0); }
        if thorough || b % 257 < 2 || b >= 0xfffe || (0x7ffe..=0x8001).contains(&b) {
            for name in ["int16", "uint16", "r16"] { rt(&mut out, name, &le(b as u64, 2), false); }
        }
    }
    // wider integers: boundaries and random
    let nrand = if thorough { 20000 } else { 1500 };
    for (name, n) in INTS {
        if n < 4 { continue; }
        let top = if n == 8 { u64::MAX } else { (1u64 << (8 * n)) - 1 };
        let half_ = 1u64 << (8 * n - 1);
        let mut vals = vec![0, 1, 2, 255, 256, 65535, 65536, half_ - 1, half_, half_ + 1, top - 1, top, top / 3, 1u64 << 53, (1u64 << 53) + 1];
        for _ in 0..nrand { vals.push(match rng.below(3) { 0 => rng.next() & top, 1 => rng.below(1000), _ => top - rng.below(1000) }); }
        for (i, v) in vals.iter().enumerate() { rt(&mut out, name, &le(*v & top, n), i < 40); }
    }
    // 32/64-bit floats, complex
    for (name, n, eb, mb) in FLOATS {
        if n < 4 { continue; }
        let mut pats = float_patterns(&mut rng, eb, mb, nrand * 2);
        pats.extend(decimal_floats(&mut rng, name, nrand));
        for (i, p) in pats.iter().enumerate() { rt(&mut out, name, &le(*p, n), i % 50 == 0); }
        let cname = if n == 4 { "complex64" } else { "complex128" };
        for i in 0..nrand / 2 {
            let mut fv = le(*rng.pick(&pats), n);
            fv.extend(le(*rng.pick(&pats), n));
            rt(&mut out, cname, &fv, i % 20 == 0);
        }
    }
    for (name, n, eb, mb) in FLOATS {
        if n == 2 { for p in decimal_floats(&mut rng, name, 50).iter().chain(float_patterns(&mut rng, eb, mb, 20).iter()) { out.push(format!("c14 arr dtype={} fv={}", name, hex(&le(*p, 2)))); } }
    }
    // raw bits of several widths, wrong sizes for every fixed-size type
    for bits in [8usize, 16, 24, 32, 64, 128, 256] {
        for i in 0..(nrand / 20).max(20) {
            let fv = match i { 0 => vec![0u8; bits / 8], 1 => vec![255u8; bits / 8], _ => rng.bytes(bits / 8) };
            rt(&mut out, &format!("r{}", bits), &fv, i < 10);
        }
    }
    for name in ["bool", "int8", "int16", "int32", "int64", "uint8", "uint16", "uint32", "uint64", "float16", "bfloat16", "float32", "float64", "complex64", "complex128", "r8", "r24", "r128"] {
        for n in [0usize, 1, 2, 3, 4, 5, 7, 8, 9, 15, 16, 17] { let fv = rng.bytes(n); out.push(format!("c14 rt dtype={} fv={}", name, hex(&fv))); }
    }
    // byte strings and strings (valid and invalid UTF-8)
    for i in 0..nrand / 2 {
        let hi = if rng.chance(1, 10) { 40 } else { 6 };
        let n = rng.below(hi) as usize;
        let b = rng.bytes(n);
        rt(&mut out, "bytes", &b, i % 10 == 0);
        let s = rand_utf8(&mut rng);
        rt(&mut out, "string", &s, i % 10 == 0);
        if i % 4 == 0 {
            let mut bad = s.clone();
            let at = rng.below(bad.len() as u64 + 1) as usize;
            bad.insert(at, *rng.pick(&[0x80u8, 0xbf, 0xc0, 0xc1, 0xc3, 0xe0, 0xed, 0xf0, 0xf4, 0xf5, 0xff]));
            rt(&mut out, "string", &bad, i % 40 == 0);
        }
    }
    // JSON text of every kind against every data type
    let texts = parse_texts(&mut rng, nrand / 3);
    let names = ["bool", "int8", "int16", "int32", "int64", "uint8", "uint16", "uint32", "uint64", "float16", "bfloat16", "float32", "float64", "complex64", "complex128", "r8", "r16", "r32", "bytes", "string"];
    for t in &texts { for name in names { out.push(format!("c14 parse dtype={} text={}", name, hex(t))); } }
    out
}
