//! C02, `packbits` partial decoder: real arrays whose array-to-bytes codec is `packbits` (bool, uint8, int16, uint16,
//! int32, uint64, float32, float64, complex64; every padding mode; bit ranges, the whole component now and then so that
//! the `bytes` fast path is taken; chunks of 1-3 dimensions, mostly 2), data confined to the bit range (sign-extended for
//! the signed types), the RAW stored chunk value dumped from the store, and
//! `array.partial_decoder(chunk).partial_decode(regions)` through the synchronous and the asynchronous decoder for every
//! sub-box of small chunks plus random region lists (with empty regions). Also values that are not encodings (truncated,
//! extended, wrong padding byte; the partial decoder validates nothing but the byte ranges) and regions outside the chunk.
//! Every line is stateless: it carries the raw value. The Lean driver runs `PackBitsPD.partialDecoder` on the raw bytes.
use crate::arr::*;
use crate::util::*;
use std::collections::BTreeMap;
use std::sync::Arc;

/// `pack_bits_components`: (component_size_bits, num_components, sign_extension)
fn components(name: &str) -> (u64, u64, bool) {
    match name {
        "bool" => (1, 1, false),
        "uint8" => (8, 1, false),
        "int8" => (8, 1, true),
        "uint16" => (16, 1, false),
        "int16" => (16, 1, true),
        "uint32" | "float32" => (32, 1, false),
        "int32" => (32, 1, true),
        "uint64" | "float64" => (64, 1, false),
        "int64" => (64, 1, true),
        "complex64" => (32, 2, false),
        _ => panic!("no packbits components for {}", name),
    }
}

fn meta_json(m: &BTreeMap<String, String>) -> String {
    let csh = pnl(&m["csh"]);
    let shape = csh.iter().map(|x| x.to_string()).collect::<Vec<_>>().join(",");
    let bits = if m.get("implicit").map(|s| s == "1").unwrap_or(false) { String::new() } else { format!(",\"first_bit\":{},\"last_bit\":{}", m["first"], m["last"]) };
    format!(
        "{{\"zarr_format\":3,\"node_type\":\"array\",\"shape\":[{}],\"data_type\":\"{}\",\"chunk_grid\":{{\"name\":\"regular\",\"configuration\":{{\"chunk_shape\":[{}]}}}},\"chunk_key_encoding\":{{\"name\":\"default\",\"configuration\":{{\"separator\":\"/\"}}}},\"fill_value\":{},\"codecs\":[{{\"name\":\"packbits\",\"configuration\":{{\"padding_encoding\":\"{}\"{}}}}}]}}",
        shape, m["dtype"], shape, String::from_utf8(unhex(&m["fillj"])).unwrap(), m["pad"], bits)
}

fn open(m: &BTreeMap<String, String>) -> Result<ArrCtx, String> {
    let mut mm = BTreeMap::new();
    mm.insert("store".to_string(), "memory".to_string());
    mm.insert("path".to_string(), "/pb".to_string());
    mm.insert("meta".to_string(), hex(meta_json(m).as_bytes()));
    mm.insert("es".to_string(), m["es"].clone());
    open_ctx(&mm)
}

fn show_parts(es: Option<usize>, parts: Vec<zarrs::array::ArrayBytes<'_>>) -> String {
    format!("val {}", parts.into_iter().map(|b| show_elems(&from_array_bytes(es, b))).collect::<Vec<_>>().join("|"))
}

#[cfg(not(feature = "zasync"))]
fn exec_async(_m: &BTreeMap<String, String>) -> String { "skip".into() }
#[cfg(feature = "zasync")]
fn exec_async(m: &BTreeMap<String, String>) -> String {
    use zarrs::array::{codec::CodecOptions, Array};
    use zarrs::storage::store::MemoryStore;
    use zarrs::storage::WritableStorageTraits;
    let es: Option<usize> = Some(m["es"].parse().unwrap());
    let inner = Arc::new(MemoryStore::new());
    if inner.set(&meta_key("/pb"), meta_json(m).into_bytes().into()).is_err() { return "err-open".into(); }
    let astore: zarrs::storage::AsyncReadableWritableListableStorage = Arc::new(crate::c07::AsyncMem(inner.clone()));
    let rt = tokio::runtime::Builder::new_current_thread().enable_all().build().unwrap();
    let c = vec![0u64; pnl(&m["csh"]).len()];
    let rs: Vec<_> = m["rs"].split('|').map(parse_subset).collect();
    let raw = m["raw"].clone();
    rt.block_on(async {
        let a = match Array::async_open(astore.clone(), "/pb").await { Ok(a) => a, Err(_) => return "err-open".to_string() };
        if raw != "absent" { if inner.set(&a.chunk_key(&c), unhex(&raw).into()).is_err() { return "err-set".into(); } }
        let o = CodecOptions::default();
        let pd = match a.async_partial_decoder_opt(&c, &o).await { Ok(p) => p, Err(_) => return "err".to_string() };
        match pd.partial_decode(&rs, &o).await { Ok(parts) => show_parts(es, parts), Err(_) => "err".into() }
    })
}

pub fn exec(line: &str) -> String {
    let (_, m) = parse_line(line);
    guarded(|| {
        if m.get("route").map(|s| s == "async").unwrap_or(false) { return exec_async(&m); }
        use zarrs::storage::WritableStorageTraits;
        let ctx = match open(&m) { Ok(c) => c, Err(e) => { if std::env::var("VERIF_ERR_MSG").is_ok() { eprintln!("ERR: {}", e); } return "err-open".into() } };
        let a = ctx.array.clone();
        let c = vec![0u64; pnl(&m["csh"]).len()];
        if m["raw"] != "absent" {
            if ctx.store.store.set(&a.chunk_key(&c), unhex(&m["raw"]).into()).is_err() { return "err-set".into(); }
        }
        let rs: Vec<_> = m["rs"].split('|').map(parse_subset).collect();
        let pd = match a.partial_decoder_opt(&c, &ctx.opts) { Ok(p) => p, Err(_) => return "err".into() };
        match pd.partial_decode(&rs, &ctx.opts) { Ok(parts) => show_parts(ctx.es, parts), Err(e) => { if std::env::var("VERIF_ERR_MSG").is_ok() { eprintln!("ERR: {}", e); } "err".into() } }
    })
}

fn all_boxes(shape: &[u64]) -> Vec<(Vec<u64>, Vec<u64>)> {
    let mut out: Vec<(Vec<u64>, Vec<u64>)> = vec![(vec![], vec![])];
    for &a in shape {
        let mut nxt = vec![];
        for (s, n) in &out { for st in 0..a { for len in 1..=(a - st) { let mut s2 = s.clone(); s2.push(st); let mut n2 = n.clone(); n2.push(len); nxt.push((s2, n2)); } } }
        out = nxt;
    }
    out
}

/// one component confined to the bits `first..=last`; for a sign-extended type the bits above `last` copy bit `last`
fn gen_component(rng: &mut Rng, w: u64, first: u64, last: u64, sign: bool) -> Vec<u8> {
    let n = last - first + 1;
    let mut x: u64 = match rng.below(6) { 0 => 0, 1 => u64::MAX, _ => rng.next() };
    if n < 64 { x &= (1u64 << n) - 1; }
    let mut v: u128 = (x as u128) << first;
    if sign && (x >> (n - 1)) & 1 == 1 { v |= ((1u128 << w) - 1) & !((1u128 << (last + 1)) - 1); }
    let cb = ((w + 7) / 8) as usize;
    (v as u64).to_le_bytes()[..cb].to_vec()
}

pub fn generate(tier: &str, seed: u64) -> Vec<String> {
    let mut rng = Rng::new(seed ^ 0xC02_9B17);
    let thorough = tier == "thorough";
    let ncases = if thorough { 400 } else { 45 };
    let names = ["uint8", "uint16", "uint64", "float32", "complex64", "uint8", "uint16", "uint64", "float32", "complex64", "bool", "int16", "int32", "float64"];
    let dts = dtypes();
    let mut out = vec![];
    let mut k = 0;
    let mut attempts = 0;
    while k < ncases && attempts < ncases * 20 {
        attempts += 1;
        let name = *rng.pick(&names);
        let dt = dts.iter().find(|d| d.name == name).unwrap().clone();
        let es = dt.es.unwrap();
        let (w, nc, sign) = components(name);
        // bit range: the whole component now and then (`bytes` fast path when the width is a multiple of 8)
        let whole = rng.chance(1, 6);
        let first = if whole || w == 1 || rng.chance(1, 4) { 0 } else { rng.range(1, w - 1) };
        let last = if whole || rng.chance(1, 2) { w - 1 } else { rng.range(first, w - 1) };
        let implicit = first == 0 && last == w - 1 && rng.chance(1, 2);
        let pad = *rng.pick(&["none", "first_byte", "last_byte"]);
        let fill = rng.pick(&dt.fills).clone();
        let rank = match rng.below(8) { 0 => 1, 1 => 3, _ => 2 } as usize;
        let csh: Vec<u64> = (0..rank).map(|_| if rank == 3 { rng.range(1, 3) } else { rng.range(2, 5) }).collect();
        let base = format!("dtype={} es={} w={} nc={} sign={} first={} last={} implicit={} pad={} csh={} fill={} fillj={}",
            name, es, w, nc, sign as u8, first, last, implicit as u8, pad, nl(&csh), hex(&fill.1), hex(fill.0.as_bytes()));
        let (_, m) = parse_line(&format!("c02p pd {}", base));
        let ctx = match guarded_res(|| open(&m)) { Ok(c) => c, Err(_) => continue };
        let nel: u64 = csh.iter().product();
        let whole_fill = rng.chance(1, 15);
        let data: Vec<Vec<u8>> = (0..nel).map(|_| if whole_fill { fill.1.clone() } else { (0..nc).flat_map(|_| gen_component(&mut rng, w, first, last, sign)).collect() }).collect();
        let c = vec![0u64; rank];
        let a = ctx.array.clone();
        let stored = guarded(|| match a.store_chunk_opt(&c, to_array_bytes(Some(es), &data), &ctx.opts) { Ok(()) => "ok".into(), Err(_) => "err".into() });
        if stored != "ok" { continue; }
        use zarrs::storage::ReadableStorageTraits;
        let raw: Option<Vec<u8>> = match ctx.store.store.get(&a.chunk_key(&c)) { Ok(Some(b)) => Some(b.to_vec()), Ok(None) => None, Err(_) => continue };
        k += 1;
        let rawh = match &raw { Some(b) => hex(b), None => "absent".to_string() };
        let route = |rng: &mut Rng| if rng.chance(1, 2) { "sync" } else { "async" };
        let good = format!("c02p pd {} corrupt=0 data={} raw={}", base, show_elems(&data), rawh);
        let boxes = all_boxes(&csh);
        let pick: Vec<(Vec<u64>, Vec<u64>)> = if boxes.len() <= 30 { boxes.clone() } else { (0..24).map(|_| rng.pick(&boxes).clone()).collect() };
        for (s, n) in &pick { out.push(format!("{} route={} rs={}+{}", good, route(&mut rng), nl(s), nl(n))); }
        // region lists, both routes on the same list
        for _ in 0..(if thorough { 8 } else { 5 }) {
            let cnt = rng.range(2, 4);
            let mut rs: Vec<String> = (0..cnt).map(|_| { let (s, n) = rng.pick(&boxes).clone(); format!("{}+{}", nl(&s), nl(&n)) }).collect();
            if rng.chance(1, 3) {
                let (s, mut n) = rng.pick(&boxes).clone(); let d = rng.below(rank as u64) as usize; n[d] = 0;
                let at = rng.below(rs.len() as u64 + 1) as usize; rs.insert(at, format!("{}+{}", nl(&s), nl(&n)));
            }
            out.push(format!("{} route=sync rs={}", good, rs.join("|")));
            out.push(format!("{} route=async rs={}", good, rs.join("|")));
        }
        // the whole chunk
        out.push(format!("{} route={} rs={}+{}", good, route(&mut rng), nl(&vec![0u64; rank]), nl(&csh)));
        // regions outside the chunk / of the wrong rank (outside the property: the model mirrors the code)
        for _ in 0..2 {
            let d = rng.below(rank as u64) as usize;
            let (mut s, mut n) = rng.pick(&boxes).clone();
            if rng.chance(1, 2) { s[d] = csh[d] + rng.below(2); n[d] = 1; } else { n[d] = csh[d] - s[d] + rng.range(1, 2); }
            out.push(format!("c02p pd {} corrupt=0 oob=1 raw={} route={} rs={}+{}", base, rawh, route(&mut rng), nl(&s), nl(&n)));
        }
        out.push(format!("c02p pd {} corrupt=0 oob=1 raw={} route={} rs={}+{}", base, rawh, route(&mut rng), nl(&vec![0u64; rank + 1]), nl(&vec![1u64; rank + 1])));
        // values that are not encodings
        if let Some(rawv) = &raw {
            let mut bads: Vec<Vec<u8>> = vec![];
            if !rawv.is_empty() { bads.push(rawv[..rawv.len() - 1].to_vec()); }
            if rawv.len() > 2 { bads.push(rawv[..rng.below(rawv.len() as u64 - 1) as usize].to_vec()); }
            { let mut v = rawv.clone(); let extra = rng.range(1, 3) as usize; v.extend(rng.bytes(extra)); bads.push(v); }
            if pad == "first_byte" && !rawv.is_empty() { let mut v = rawv.clone(); v[0] ^= 0x05; bads.push(v); }
            if pad == "last_byte" && !rawv.is_empty() { let mut v = rawv.clone(); let l = v.len() - 1; v[l] ^= 0x05; bads.push(v); }
            for v in bads {
                let bad = format!("c02p pd {} corrupt=1 raw={}", base, hex(&v));
                for _ in 0..2 { let (s, n) = rng.pick(&boxes).clone(); out.push(format!("{} route={} rs={}+{}", bad, route(&mut rng), nl(&s), nl(&n))); }
                out.push(format!("{} route={} rs={}+{}", bad, route(&mut rng), nl(&vec![0u64; rank]), nl(&csh)));
            }
        }
    }
    out
}
