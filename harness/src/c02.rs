//! C02: partial decoding equals full decoding followed by slicing. Every sub-box of small chunks through the chunk
//! partial decoder (lists of 1-4 regions), `retrieve_chunk_subset` and chunk-crossing `retrieve_array_subset`, for
//! present / absent / partly-fill chunks; the implementation's own full-decode-then-slice is compared as well.
use crate::arr::*;
use crate::util::*;
use std::collections::BTreeMap;

pub fn exec_op(ctx: &mut ArrCtx, verb: &str, m: &BTreeMap<String, String>) -> String {
    if verb != "pdx" { return crate::arr::exec_op(ctx, verb, m); }
    let a = ctx.array.clone();
    let es = ctx.es;
    let o = ctx.opts.clone();
    guarded(|| {
        let c = pnl(&m["c"]);
        let rs: Vec<_> = m["rs"].split('|').map(parse_subset).collect();
        let pd = match a.partial_decoder_opt(&c, &o) { Ok(p) => p, Err(_) => return "err".into() };
        let parts = match pd.partial_decode(&rs, &o) { Ok(p) => p, Err(_) => return "err".into() };
        let parts: Vec<Vec<Vec<u8>>> = parts.into_iter().map(|b| from_array_bytes(es, b)).collect();
        // the property itself, decided on the implementation: full decode then slice
        let full = match a.retrieve_chunk_opt(&c, &o) { Ok(b) => b, Err(_) => return "err-full".into() };
        let cshape = a.chunk_shape(&c).unwrap().iter().map(|x| x.get()).collect::<Vec<u64>>();
        let mut same = true;
        for (r, p) in rs.iter().zip(&parts) {
            match full.extract_array_subset(r, &cshape, a.data_type()) { Ok(s) => { if &from_array_bytes(es, s) != p { same = false; } } Err(_) => same = false }
        }
        format!("val {} same={}", parts.iter().map(|p| show_elems(p)).collect::<Vec<_>>().join("|"), same)
    })
}

fn all_boxes(shape: &[u64]) -> Vec<(Vec<u64>, Vec<u64>)> {
    let mut out: Vec<(Vec<u64>, Vec<u64>)> = vec![(vec![], vec![])];
    for &a in shape {
        let mut nxt = vec![];
        for (s, n) in &out { for st in 0..a { for len in 1..=(a - st) { let mut s2 = s.clone(); s2.push(st); let mut n2 = n.clone(); n2.push(len); nxt.push((s2, n2)); } } }
        out = nxt;
    }
    out
}

pub fn generate(tier: &str, seed: u64) -> Vec<String> {
    let mut rng = Rng::new(seed ^ 0xC02);
    let thorough = tier == "thorough";
    let ncfg = if thorough { 2500 } else { 220 };
    let mut out = vec![];
    // lossy `bitround` (decoding is the identity): partial reads of absent chunks must return the fill value itself,
    // also when the fill value is not representable at `keepbits`
    for i in 0..(if thorough { 60 } else { 12 }) {
        let mut cfg = gen_cfg(&mut rng, Some(true));
        let mut tries = 0;
        while (cfg.dtype.name != "float32" || cfg.shape.is_empty() || cfg.sharded) && tries < 2000 { cfg = gen_cfg(&mut rng, Some(true)); tries += 1; }
        if cfg.dtype.name != "float32" { continue; }
        cfg.fill = ("0.1".to_string(), 0.1f32.to_le_bytes().to_vec());
        let keep = 1 + (i % 5);
        cfg.codecs_json = format!("[{{\"name\":\"bitround\",\"configuration\":{{\"keepbits\":{}}}}},{{\"name\":\"bytes\",\"configuration\":{{\"endian\":\"little\"}}}}]", keep);
        cfg.chain_desc = "bitround|bytes-little".into();
        out.push(cfg.cfg_line("c02", "memory", false, false, ""));
        let gs = cfg.grid_shape();
        for _ in 0..4 {
            let c: Vec<u64> = gs.iter().map(|&g| rng.below(g.max(1))).collect();
            let cshape = cfg.chunk_origin_shape(&c).1;
            let mut st = vec![]; let mut n = vec![];
            for &e in &cshape { let a = rng.below(e); st.push(a); n.push(rng.range(1, e - a)); }
            out.push(format!("c02 op retrieve_chunk c={}", nl(&c)));
            out.push(format!("c02 op retrieve_chunk_subset c={} r={}+{}", nl(&c), nl(&st), nl(&n)));
            out.push(format!("c02 op pdx c={} rs={}+{}", nl(&c), nl(&st), nl(&n)));
        }
        out.push(format!("c02 {}", gen_read_op(&mut rng, &cfg)));
    }
    // packbits with a bit range (own stream): single- and multi-component data types, regions that are not contiguous
    {
        let mut rp = Rng::new(seed ^ 0xC02_9B);
        for _ in 0..(if thorough { 150 } else { 15 }) {
            let cfg = gen_packbits_cfg(&mut rp);
            out.push(cfg.cfg_line("c02", "memory", false, false, ""));
            out.push(format!("c02 op store_array_subset r={}+{} data={}", nl(&vec![0; cfg.shape.len()]), nl(&cfg.shape), gen_data(&mut rp, &cfg, cfg.shape.iter().product())));
            let gs = cfg.grid_shape();
            for _ in 0..6 {
                let c: Vec<u64> = gs.iter().map(|&g| rp.below(g.max(1))).collect();
                let cshape = cfg.chunk_origin_shape(&c).1;
                let rs: Vec<String> = (0..rp.range(1, 3)).map(|_| { let mut st = vec![]; let mut n = vec![]; for &e in &cshape { let a = rp.below(e); st.push(a); n.push(rp.range(1, e - a)); } format!("{}+{}", nl(&st), nl(&n)) }).collect();
                out.push(format!("c02 op pdx c={} rs={}", nl(&c), rs.join("|")));
                out.push(format!("c02 op retrieve_chunk_subset c={} r={}", nl(&c), rs[0]));
                out.push(format!("c02 {}", gen_read_op(&mut rp, &cfg)));
            }
        }
    }
    let mut k = 0;
    while k < ncfg {
        let cfg = gen_cfg(&mut rng, if k % 2 == 0 { Some(true) } else { None });
        if cfg.shape.is_empty() { continue; }
        k += 1;
        out.push(cfg.cfg_line("c02", "memory", rng.chance(1, 5), false, ""));
        // contents: some chunks written fully, some partly fill, some left absent
        let gs = cfg.grid_shape();
        let nchunks: u64 = gs.iter().product();
        for _ in 0..rng.range(1, 4) { out.push(format!("c02 {}", gen_write_op(&mut rng, &cfg))); }
        let chunks: Vec<Vec<u64>> = (0..nchunks.min(3)).map(|_| gs.iter().map(|&g| rng.below(g.max(1))).collect()).collect();
        for c in &chunks {
            let cshape = cfg.chunk_origin_shape(c).1;
            let boxes = all_boxes(&cshape);
            let exhaustive = boxes.len() <= 150;
            let pick: Vec<(Vec<u64>, Vec<u64>)> = if exhaustive { boxes.clone() } else { (0..60).map(|_| rng.pick(&boxes).clone()).collect() };
            // single-region reads through both routes
            for (s, n) in &pick {
                if rng.chance(1, 2) { out.push(format!("c02 op retrieve_chunk_subset c={} r={}+{}", nl(c), nl(s), nl(n))); }
                else { out.push(format!("c02 op pdx c={} rs={}+{}", nl(c), nl(s), nl(n))); }
            }
            // region lists (2-4 regions, including an empty one now and then)
            for _ in 0..(if thorough { 12 } else { 5 }) {
                let cnt = rng.range(2, 4);
                let mut rs: Vec<String> = (0..cnt).map(|_| { let (s, n) = rng.pick(&boxes).clone(); format!("{}+{}", nl(&s), nl(&n)) }).collect();
                if rng.chance(1, 5) { rs.push(format!("{}+{}", nl(&vec![0; cshape.len()]), nl(&vec![0; cshape.len()]))); }
                out.push(format!("c02 op pdx c={} rs={}", nl(c), rs.join("|")));
            }
        }
        // chunk-crossing array subsets
        for _ in 0..(if thorough { 10 } else { 5 }) { out.push(format!("c02 {}", { let mut l = gen_read_op(&mut rng, &cfg); while !l.contains("retrieve_array_subset") { l = gen_read_op(&mut rng, &cfg); } l })); }
    }
    out
}
