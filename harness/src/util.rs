//! Shared helpers: PRNG, canonical printing/parsing of the line protocol, panic capture.
use std::collections::BTreeMap;
use std::panic::{catch_unwind, AssertUnwindSafe};

#[derive(Clone)]
pub struct Rng(pub u64);
impl Rng {
    pub fn new(seed: u64) -> Self {
        let mut r = Rng(seed.wrapping_mul(0x9E3779B97F4A7C15) ^ 0xD1B54A32D192ED03);
        r.next();
        r
    }
    pub fn next(&mut self) -> u64 {
        // splitmix64
        self.0 = self.0.wrapping_add(0x9E3779B97F4A7C15);
        let mut z = self.0;
        z = (z ^ (z >> 30)).wrapping_mul(0xBF58476D1CE4E5B9);
        z = (z ^ (z >> 27)).wrapping_mul(0x94D049BB133111EB);
        z ^ (z >> 31)
    }
    pub fn below(&mut self, n: u64) -> u64 {
        if n == 0 { 0 } else { self.next() % n }
    }
    pub fn range(&mut self, lo: u64, hi_inc: u64) -> u64 {
        lo + self.below(hi_inc - lo + 1)
    }
    pub fn chance(&mut self, num: u64, den: u64) -> bool {
        self.below(den) < num
    }
    pub fn pick<'a, T>(&mut self, xs: &'a [T]) -> &'a T {
        &xs[self.below(xs.len() as u64) as usize]
    }
    pub fn bytes(&mut self, n: usize) -> Vec<u8> {
        (0..n).map(|_| self.next() as u8).collect()
    }
}

pub fn hex(b: &[u8]) -> String {
    if b.is_empty() {
        return "-".to_string();
    }
    let mut s = String::with_capacity(b.len() * 2);
    for x in b {
        s.push_str(&format!("{:02x}", x));
    }
    s
}
pub fn unhex(s: &str) -> Vec<u8> {
    if s == "-" {
        return vec![];
    }
    (0..s.len() / 2)
        .map(|i| u8::from_str_radix(&s[2 * i..2 * i + 2], 16).unwrap())
        .collect()
}
/// list of naturals: comma separated, `-` when empty
pub fn nl<T: std::fmt::Display>(xs: &[T]) -> String {
    if xs.is_empty() {
        "-".to_string()
    } else {
        xs.iter().map(|x| x.to_string()).collect::<Vec<_>>().join(",")
    }
}
pub fn pnl(s: &str) -> Vec<u64> {
    if s == "-" {
        vec![]
    } else {
        s.split(',').map(|x| x.parse().unwrap()).collect()
    }
}
/// list of lists: `;` separated, `~` when empty
pub fn nll<T: std::fmt::Display>(xs: &[Vec<T>]) -> String {
    if xs.is_empty() {
        "~".to_string()
    } else {
        xs.iter().map(|x| nl(x)).collect::<Vec<_>>().join(";")
    }
}
pub fn pnll(s: &str) -> Vec<Vec<u64>> {
    if s == "~" {
        vec![]
    } else {
        s.split(';').map(pnl).collect()
    }
}

/// `verb k=v k=v` -> (verb, map)
pub fn parse_line(line: &str) -> (Vec<String>, BTreeMap<String, String>) {
    let line = match line.find(" -> ") {
        Some(p) => &line[..p],
        None => line,
    };
    let mut verbs = vec![];
    let mut m = BTreeMap::new();
    for tok in line.split_whitespace() {
        if let Some(p) = tok.find('=') {
            m.insert(tok[..p].to_string(), tok[p + 1..].to_string());
        } else {
            verbs.push(tok.to_string());
        }
    }
    (verbs, m)
}

/// where the most recent panic was raised (`<dir>/<file>:<line>`), for reports that must tell a panic inside an
/// external library from one inside zarrs
pub static LAST_PANIC: std::sync::Mutex<String> = std::sync::Mutex::new(String::new());
pub fn last_panic_location() -> String { LAST_PANIC.lock().map(|s| s.clone()).unwrap_or_default() }

pub fn silence_panics() {
    let verbose = std::env::var("VERIF_PANIC_MSG").is_ok();
    std::panic::set_hook(Box::new(move |info| {
        if let Some(l) = info.location() {
            let parts: Vec<&str> = l.file().split('/').collect();
            let short = parts[parts.len().saturating_sub(3)..].join("/");
            if let Ok(mut s) = LAST_PANIC.lock() { *s = format!("{}:{}", short, l.line()); }
        }
        if verbose { eprintln!("PANIC: {}", info); }
    }));
}

/// run `f`, mapping a panic to the outcome `panic`
pub fn guarded<F: FnOnce() -> String>(f: F) -> String {
    match catch_unwind(AssertUnwindSafe(f)) {
        Ok(s) => s,
        Err(_) => "panic".to_string(),
    }
}

pub struct Args {
    pub tier: String,
    pub seed: u64,
    pub out: Option<String>,
    pub replay: Option<String>,
    pub rest: Vec<String>,
    /// (i, n): execute only the case blocks with index % n == i
    pub shard: Option<(usize, usize)>,
}
pub fn parse_args(a: &[String]) -> Args {
    let mut r = Args { tier: "quick".into(), seed: 1, out: None, replay: None, rest: vec![], shard: None };
    let mut i = 0;
    while i < a.len() {
        match a[i].as_str() {
            "--tier" => { r.tier = a[i + 1].clone(); i += 2; }
            "--seed" => { r.seed = a[i + 1].parse().unwrap_or(1); i += 2; }
            "--out" => { r.out = Some(a[i + 1].clone()); i += 2; }
            "--replay" => { r.replay = Some(a[i + 1].clone()); i += 2; }
            "--shard" => { let p: Vec<usize> = a[i + 1].split('/').map(|x| x.parse().unwrap()).collect(); r.shard = Some((p[0], p[1])); i += 2; }
            "--isolate" | "--no-isolate" => { i += 1; }
            _ => { r.rest.push(a[i].clone()); i += 1; }
        }
    }
    r
}

/// run `f` returning a Result, mapping a panic to Err("panic")
pub fn guarded_res<T, F: FnOnce() -> Result<T, String>>(f: F) -> Result<T, String> {
    match catch_unwind(AssertUnwindSafe(f)) {
        Ok(r) => r,
        Err(_) => Err("panic".to_string()),
    }
}
