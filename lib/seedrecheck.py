#!/usr/bin/env python3
"""Re-run the property's own check (quick tier) against seeded changes after the check was strengthened and record the
outcome as `recheck` in seeded/<name>/meta.json.  usage: seedrecheck.py <name> [<name> ...] [--also=C05,C07]"""
import json, os, shutil, subprocess, sys
ROOT = os.path.dirname(os.path.dirname(os.path.abspath(__file__)))
def main():
    names = [a for a in sys.argv[1:] if not a.startswith("--")]
    also = []
    for a in sys.argv[1:]:
        if a.startswith("--also="): also = a.split("=", 1)[1].split(",")
    for name in names:
        d = os.path.join(ROOT, "seeded", name)
        own = name.split("_")[0]
        checks = [own] + [c for c in also if c != own]
        r = subprocess.run([sys.executable, os.path.join(ROOT, "lib", "seedcheck.py"), os.path.join(d, "patch.diff"), name + "_re"] + checks, capture_output=True, text=True)
        print(r.stdout[-1500:], r.stderr[-300:], flush=True)
        try: res = json.load(open(os.path.join(ROOT, "work", "seedruns", name + "_re", "result.json")))
        except Exception: res = {}
        meta = json.load(open(os.path.join(d, "meta.json")))
        rc = meta.get("recheck", {})
        for c, v in res.items():
            viol = [l for l in v["lines"] if l.startswith("VIOLATION")]
            inputs = [l for l in viol if "no-failing-input-found" not in l]
            if inputs:
                rc[c] = "failing input: " + inputs[0].split("replay=")[1].split("/")[-1]
                rp = inputs[0].split("replay=")[1].split()[0]
                if os.path.exists(rp): shutil.copy(rp, os.path.join(d, "replay_%s.txt" % c))
            elif viol: rc[c] = "proof/correspondence broken, no failing input"
            else: rc[c] = "not detected"
        meta["recheck"] = rc
        json.dump(meta, open(os.path.join(d, "meta.json"), "w"), indent=1)
        print(name, "recheck", rc, flush=True)
main()
