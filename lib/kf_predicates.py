"""Named predicates used by known_findings.jsonl entries: (request line with implementation outcome, driver detail) -> bool."""
import re

def _dir(text):
    m = re.search(r"dir (\S+) \| (\S+)", text)
    if not m:
        return None
    f = lambda s: set() if s == "~" else set(s.split(","))
    return f(m.group(1)), f(m.group(2))

def extra_prefixes_only(line, detail):
    """list_dir: keys exactly as the model says; prefixes a strict superset of the model's (stale empty directories)"""
    impl = _dir(line.split(" -> ", 1)[1]) if " -> " in line else None
    model = _dir(detail)
    if not impl or not model:
        return False
    return impl[0] == model[0] and model[1] < impl[1]

def _fields(text):
    return dict(t.split("=", 1) for t in text.split() if "=" in t)

def only_full_diff(line, detail):
    """C15 tally: the only requirement missed is full_diff=0 (no panic, nothing else)"""
    if " -> sum " not in line:
        return False
    impl = _fields(line.split(" -> ", 1)[1]); model = _fields(detail)
    bad = [k for k in model if k in impl and k != "first" and model[k] != impl[k]]
    return bad == ["full_diff"] and impl.get("panics") == "0"

def is_abort(line, detail):
    return line.endswith(" -> abort")

def only_touch_bad(line, detail):
    """C15 setindex tally: the only requirement missed is touch_bad=0 (partial reads confined to the inner chunk whose
    entry was rewritten returned other data); no panic anywhere, every whole-value read failed"""
    if " -> sum " not in line:
        return False
    impl = _fields(line.split(" -> ", 1)[1]); model = _fields(detail)
    bad = [k for k in model if k in impl and k not in ("first", "touch_first") and model[k] != impl[k]]
    return bad == ["touch_bad"] and impl.get("panics") == "0" and impl.get("touch_panics") == "0" and impl.get("full_noterr") == "0"


def pco_alloc_failure(line, detail):
    """C15, pcodec: the child process aborted (allocation failure), or the only requirement missed is panics=0 and the
    first panic was raised in the allocator's capacity check / inside the pco crate (a size taken from a corrupted header)"""
    if line.endswith(" -> abort"):
        return True
    if " -> sum " not in line:
        return False
    impl = _fields(line.split(" -> ", 1)[1]); model = _fields(detail)
    bad = [k for k in model if k in impl and k not in ("first",) and model[k] != impl[k]]
    ploc = impl.get("ploc", "")
    return bad == ["panics"] and ("raw_vec" in ploc or "/pco" in ploc or "pco-" in ploc)


def pesr_stage_in_front(line, detail):
    """C05, kept partial encoder (`c05 pesr`): the chain has an array-to-array or bytes-to-bytes stage in front of a sharding
    codec (first level `a2as`/`b2bs` not both `-`), so the default partial encoder of that stage reads through a partial
    decoder created with the handle; and nothing panicked"""
    if not line.startswith("c05 pesr "):
        return False
    f = _fields(line.split(" -> ", 1)[0])
    if f.get("ishs", "~") == "~":
        return False
    front = not (f.get("a2as", "-").split(";")[0] == "-" and f.get("b2bs", "-").split(";")[0] == "-")
    return front and "panic" not in line.split(" -> ", 1)[-1]


def zfp_unsigned_clamp(line, detail):
    """C03, zfp reversible mode on uint32/uint64: the decoded value is exactly the data with every element above the signed
    maximum replaced by the signed maximum (and nothing else differs); sizes hold"""
    if " lossy=zfp:reversible" not in line or " -> val " not in line:
        return False
    req, out = line.split(" -> ", 1)
    f = _fields(req); o = _fields(out)
    if f.get("dtype") not in ("uint32", "uint64") or o.get("sizeok") != "true":
        return False
    es = int(f["es"]); top = (1 << (8 * es - 1)) - 1
    data = [int.from_bytes(bytes.fromhex(x), "little") for x in f["data"].split(".")]
    dec = [int.from_bytes(bytes.fromhex(x), "little") for x in o.get("dec", "").split(".") if x]
    return len(data) == len(dec) and any(d > top for d in data) and all(min(d, top) == e for d, e in zip(data, dec))


def pe_erase_then_write(line, detail):
    """C20, `fault_sweep_pe` (the sharding partial encoder under `experimental_partial_encoding`): the only requirement
    missed is retry convergence (`retry_diff`/`rdk`), nothing panicked, no fault was swallowed, and EVERY fault position after
    which the retry ends elsewhere is a write of a shard that the same call erased just before (`rdk` items `ew<key>`)"""
    if " fault_sweep_pe " not in line or " -> " not in line:
        return False
    impl = _fields(line.split(" -> ", 1)[1]); model = _fields(detail)
    bad = sorted(k for k in model if k in impl and model[k] != impl[k])
    if bad != ["rdk", "retry_diff"] or impl.get("panics") != "0" or impl.get("ok_with_fault") != "0":
        return False
    items = impl.get("rdk", "-").split(",")
    return all(i.startswith("ew") for i in items)
