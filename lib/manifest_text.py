"""Texts for MANIFEST.json (level claimed, trusted-base note, technique) per property."""
_TB = ("Trusted: Lean 4.33 kernel with axioms propext/Classical.choice/Quot.sound only (audited by #print axioms on every run; no sorry/native_decide/bv_decide); "
       "the hand-written model corresponds to the Rust only as far as the differential harness explores (unverified Rust harness + Lean driver glue); "
       "Nat models u64/usize, overflow excluded. ")
TEXT = {
    "C09": {
        "level": "Machine-checked proof (24 theorems, unbounded ranks/extents) that the modelled iterators, run/byte-range/extract/chunk computations and subset algebra "
                 "equal their set-theoretic specifications, in any mixture of next/next_back and under every rayon split tree; tied to the code by an exhaustive "
                 "small-scope correspondence (all shapes/subsets up to rank 3, extents 3) plus large-extent samples, rebuilt from /repo on every run. After an audit of the 146 public functions of the subset/iterator/grid code, every one in scope is called and predicted (ranged iterators for every bound kind incl. inclusive ends beyond the length, rayon paths, the `*_unchecked` twins on their contracts); Props/C09Api proves the ranged iterators enumerate exactly that slice of `indices`.",
        "note": _TB + "rayon's bridge is driven only through Producer::split_at/into_iter.",
        "technique": "Lean 4 theorems on an executable model + exhaustive small-scope differential correspondence",
    },
    "C10": {
        "level": "Machine-checked proof that grids built from any configuration (fixed and varying dimensions, non-zero sizes) partition every compatible array: "
                 "existence+uniqueness of the owning chunk, mutual consistency of origin/shape/subset/chunk-of-element/element-in-chunk, exactness of chunks_in_array_subset, "
                 "minimality of the grid shape, None outside the grid, metadata round trip; tied to both Rust grid implementations by exhaustive 1-D and sampled N-D correspondence. The grid-related `Array` methods (chunk_subset[_bounded], chunks_subset[_bounded], chunks_in_array_subset, chunk_origin/shape, built directly, through metadata and after set_shape) are called for every chunk, box and region of small grids and proved to be the trait queries / the union of the box's chunk subsets (Props/C10Api).",
        "note": _TB + "serde round trip of the grid configuration is exercised, not modelled.",
        "technique": "Lean 4 theorems on an executable model + exhaustive small-scope differential correspondence",
    },
    "C11": {
        "level": "Machine-checked proof over arbitrary-size naturals (hence the full u64 range) that both encodings with either separator are injective at fixed rank, "
                 "have exactly the specified textual form (decimal without padding), give valid store keys beneath the node path and never collide with a metadata key; "
                 "tied to Array::chunk_key on real arrays by correspondence over boundary coordinates.",
        "note": _TB + "u64::to_string = Nat.toDigits 10 is checked by the correspondence only.",
        "technique": "Lean 4 theorems on an executable model + differential correspondence",
    },
}
TEXT["C08"] = {
    "level": "Machine-checked proof (19 theorems) that the MemoryStore algorithm (set_impl fast path/resize/truncate, validated ranged reads, strip-and-split list_dir, "
             "erase_prefix) and the generic read-modify-write partial write refine a plain ordered-map specification for every operation and state: slices, zero-extension "
             "without truncation, replacement, exact key/prefix/directory listings; all 11 provided stores and adapters (filesystem +-direct I/O, object_store, opendal sync/async, "
             "zip, usage-log, performance-metrics) are tied to the same specification by differential operation sequences with the property's tolerance for out-of-bounds reads. The FilesystemStore algorithm is modelled over a directory tree WITH left-behind empty directories and proved to refine the same map for all 12 operations and every history (Props/C08Fs: fs_refines, fs_history_refines, fs_listDir_ignores_empty_dirs; error cases for clashing keys), and the generic async read-modify-write is proved to give the sequential result under EVERY schedule of its per-key futures (Props/C08Async); both models run beside the specification in the driver (a deterministic suspending store exposes interleavings).",
    "note": _TB + "Third-party back ends and the OS file system are corresponded only; one open finding (stale empty directories in object_store/opendal local-fs listings) is listed in known_findings.jsonl.",
    "technique": "Lean 4 refinement proof to an ordered-map spec + differential operation sequences on 11 stores",
}
TEXT["C06"] = {
    "level": "Machine-checked proof that a chunk cache of either kind (decoded / encoded), under ANY eviction policy that never invents entries (LRU by count or bytes at any capacity "
             "including 0 and 1, deferred eviction, unbounded) and from any coherent starting cache, returns for every sequence of reads exactly the uncached read, never caches a failed read, "
             "and stays coherent; route agreement of the uncached routes is C01.read_after_history. All routes of the implementation (typed/ndarray forms, partial decoder, sharded-extension "
             "methods with their shard-index cache, 8 cache flavours x capacities) are tied to the model's plain read of the same region by differential read sequences with repeats.",
    "note": _TB + "moka/lru internals abstracted to get/insert/evict-some; thread-local caches are exercised on the calling thread.",
    "technique": "Lean 4 invariant proof over a cache state machine with arbitrary eviction + differential read sequences over all routes",
}
TEXT["C19"] = {
    "level": "Machine-checked proof, for any number of threads, writers and placements, that a writer-preferring reader-writer lock never deadlocks and always lets every thread finish when no "
             "thread acquires while holding (flat traces), that a nested read acquisition does deadlock against one writer (explicit witness), and that hook H3's probe trace is all-free iff the "
             "operation's trace is flat; the hypothesis 'every public operation's trace is flat' is monitored on the real code: each enumerated operation x configuration runs on a single call stack "
             "with the probe recording every acquisition of the configuration lock.",
    "note": _TB + "Partial: std RwLock semantics (writer preference) are modelled, not verified; an operation the harness does not enumerate is not covered; real blocking is not exhibited by the model, the probe turns it into a deterministic report.",
    "technique": "Lean 4 deadlock-freedom proof for flat lock traces + monitored flatness of every enumerated operation via a try_write probe hook",
}
TEXT["C01"] = {
    "level": "Machine-checked refinement proof (no bound on rank, extents, history length): for every configuration with a lossless chain (C03), injective keys (C11) and a grid built from a "
             "configuration compatible with the shape (C10), after ANY in-bounds history of store_chunk/store_chunks/store_chunk_subset/store_array_subset/erase_chunk/erase_chunks from the empty store, "
             "retrieve_array_subset, retrieve_chunk, retrieve_chunk_subset and retrieve_chunks return element for element the abstract array 'last write wins, erased or never written = fill', "
             "including the overhang of edge chunks. The model is tied to the implementation (12 data types, all registered lossless codecs, both grid kinds, 4 key encodings, 5 store kinds, reopened "
             "handles) by differential histories, and on every run each read is additionally judged against the abstract array itself. The codec hypothesis is DISCHARGED for the byte-level chains `ChainS` (bytes / transposes / checksums / shuffle / `sharding_indexed` nested to any depth): `read_after_history_chainS` states the same conclusion with enc = ChainS.encode, dec = ChainS.decode (Props/C01Chain, via `LosslessOn` valid chunks).",
    "note": _TB + "External compressors enter through the assumed law decode(encode x)=x (exercised, not proved); byte-level layout of decoded chunks (ArrayBytes fixed/variable) is below the element-level model and covered by the correspondence.",
    "technique": "Lean 4 refinement proof (per-chunk invariant, induction over histories) + differential histories judged against model and abstract spec",
}
TEXT["C04"] = {
    "level": "Machine-checked proof (same refinement invariant as C01): with elision on, after any history a chunk key is present iff the chunk holds a non-fill element; only chunk keys are written; "
             "with store_empty_chunks every whole-chunk write is stored; a chunk is elided only if all elements equal fill; an absent chunk reads as fill. Tied to the code by fill-heavy differential "
             "histories with the key listing compared after every operation (NaN payloads, -0.0, repeated-fill strings).",
    "note": _TB + "The 128-bit fast paths of equals_all are exercised, not modelled; shard-internal elision is checked by C05's shard parser.",
    "technique": "Lean 4 invariant proof (key present iff non-fill) + differential histories with key listings after every operation",
}
TEXT["C17"] = {
    "level": "Machine-checked proof that for every grid built from a configuration, compatible shape, in-bounds non-empty region and element size the byte ranges written through the per-chunk views of a "
             "multi-chunk read are a permutation of [0, n*es) (every byte exactly once), that one view writes exactly the bytes of its region, and that the executable verdict `tiles` used on recorded maps "
             "is equivalent to that multiset statement; on the real code hook H4 records every view write and every publish site (multi-chunk reads, sharding decode incl. nested, sharded partial decoder, "
             "cached and sharded-extension reads) and every published buffer is judged by `tiles`. The views of the SHARDED routes are modelled too (Model/WriteMapShard: ShardingCodec::decode / decode_into, the sharding partial decoder, the sharded extension incl. regions overhanging a ragged edge, multi-chunk reads of sharded arrays) and proved to tile every published buffer exactly once at any nesting depth (Props/C17Shard, 14 theorems); for sharded requests the recorded map is compared with the predicted map, not only judged.",
    "note": _TB + "Partial: writes outside ArrayBytesFixedDisjointView (raw pointers, external codecs) are not observable by the model or the hook; memory safety itself is not proved.",
    "technique": "Lean 4 tiling proof (permutation of byte ranges) + recorded write maps judged by a proved-equivalent executable predicate",
}
TEXT["C18"] = {
    "level": "Machine-checked linearizability proof (any number of threads, any programs, any schedule): every complete execution of the repaired MemoryStore lock protocol (set / partial set / get / "
             "ranged get / size / erase on one key, including the case where an erase orphans a value another thread is about to read) has a total order respecting real time that is a legal run of an "
             "atomic register with the observed responses and the final stored value; a get never returns a value nobody wrote; the protocol always runs to completion; the same for the "
             "FilesystemStore per-key RwLock protocol; the protocols as found are proved NOT linearizable by explicit witnesses (reader sees Some([]); size_key sees 0). The models' atomic steps are "
             "aligned with yield hooks H1/H2: every schedule of the enumerated programs is replayed on the real stores and the responses compared with the model's.",
    "note": _TB + "Partial: parking_lot/std lock semantics and atomicity of OS file operations inside one critical section are assumed; one key is modelled (other keys share only the map mutex / lock registry).",
    "technique": "Lean 4 linearization-point proof with ghost state + exhaustive schedule replay on the real stores through yield hooks",
}
TEXT["C16"] = {
    "level": "Machine-checked proof that operations on different keys commute and do not affect each other's results, that ANY interleaving of any number of pairwise key-disjoint tasks ends in the "
             "sequential store and gives each task exactly the results it gets alone, that array writes touch only (and reads depend only on) the keys of the chunks meeting the region, and that "
             "chunk-disjoint regions have disjoint key sets; the implementation is run at concurrency targets {1,2,3,8,16} x chunk_concurrent_minimum {1,4} and with 2-3 client threads on "
             "chunk-disjoint bands under a seeded turn-taking store wrapper, every outcome compared with the sequential model; completion under internal parallelism is monitored by hook H5 "
             "(is a cache lock held while its fill closure runs?).",
    "note": _TB + "Partial: rayon's work-stealing schedules and real blocking are not in the model (the probe turns the self-deadlock pattern into a deterministic report); client interleavings are sampled on the implementation, the theorem covers all.",
    "technique": "Lean 4 commutation/interleaving proof over per-key store operations + differential runs over concurrency settings and scheduled client threads",
}
TEXT["C15"] = {
    "level": "Machine-checked proof, for payloads of any length and every position, that CRC-32C (bit-serial reflected register, validated against RFC 3720 vectors and byte-for-byte against the crc32c crate) "
             "and Fletcher-32 (HDF5 variant incl. odd lengths and multi-block payloads) detect every single-byte alteration of payload or checksum; that with validation off decoding strips 4 bytes and nothing "
             "else; that a validated decode succeeding on ANY bytes returns the stored prefix; that a shard shorter than its index or with a live index entry outside the value (incl. offset+size >= 2^64) is an "
             "error and that whenever a shard decode succeeds every chunk is the in-bounds slice its entry names; a crc-protected index detects every single-byte alteration. On the real code every byte position, "
             "truncation length, extension and adversarial index entry is applied to stored values and 8 read routes are run in a child process: never a panic, errors where the theorems make detection certain.",
    "note": _TB + "Partial: absence of panics/aborts inside external codecs on arbitrary bytes is explored (fuzzed), not proved (open findings: pcodec allocation abort; partial reads of the leading elements of an inner chunk whose right-size entry ends beyond the value); a checksum placed before a compressor gives no single-byte guarantee for the stored bytes (open finding for fletcher32).",
    "technique": "Lean 4 proofs of checksum error detection and shard bounds + exhaustive single-byte/truncation corruption of stored values under catch_unwind",
}
TEXT["C03"] = {
    "level": "Machine-checked proof for the codecs with a specified output: crc32c, fletcher32, bytes (either byte order), shuffle, transpose (inverse, element count, shape round trip, fill mapping) "
             "invert their encoding and have exactly the declared size; ANY chain of lawful bytes-to-bytes codecs inverts and honours the composed bound; the sharding layout (either index location, "
             "either index byte order, with/without index checksum) decodes to the encoded inner chunks, has length sum+index, respects the n*max+index bound and is a legal shard. The models are compared "
             "BYTE FOR BYTE with the implementation's encodings; packbits (every padding mode, bit range, component count) and the variable-length codecs vlen_v2 / vlen-utf8 / vlen-bytes / vlen-array / zarrs.vlen (uint32/uint64 index, either byte order, any lawful index and data chains) are modelled byte for byte with inversion, exact-size, truncation-rejection and offset-validation theorems, and their decoders are fed truncated and bit-flipped encodings on both sides; bitround is compared with a model of the prescribed rounding, fixedscaleoffset with its tolerance on exact rationals; external compressors and pcodec are TESTED (round trip and declared size on adversarial payloads), labelled as tests.",
    "note": _TB + "No theorem about flate2/zstd/blosc/bz2/gdeflate/pco is possible here: they are parameters whose laws are hypotheses; of the lossy codecs bitround has a model and theorems (idempotence, kept bits), fixedscaleoffset and zfp are tolerance tests.",
    "technique": "Lean 4 inverse/size proofs for modelled codecs and chain composition + byte-exact differential encoding + round-trip/size tests for external codecs",
}
TEXT["C20"] = {
    "level": "Machine-checked proof that a failing store operation in any reached per-chunk step makes the method return an error; that after the per-chunk steps of ANY sub-list of the chunks "
             "(whatever internal parallelism completed before the failure) every key holds its previous or its intended value; that re-running the method fault-free from any such partial state gives "
             "exactly the fault-free final state (idempotent per-chunk read-modify-write, elision included); that a whole-chunk write touches only its key; and that failed reads are not cached. On the "
             "real code every fault position k of every swept operation is injected through a store wrapper and result class, per-key state, retry convergence and cache behaviour are checked.",
    "note": _TB + "Panics are explored, not proved absent; the sweep runs at concurrency 1 (sub-lists under parallelism are covered by the theorem, not enumerated).",
    "technique": "Lean 4 proofs over faulty folds (error propagation, chunk granularity, retry idempotence) + exhaustive fault-position sweep through an injecting store wrapper",
}
TEXT["C02"] = {
    "level": "Machine-checked compositional proof: a handle that serves a value stays a serving handle through every modelled partial decoder — storage handle, strip-suffix (checksum codecs, all three range forms), "
             "byte interval, decode-all fallbacks and compressors (for any codec inverting its encoding), byte and array caches, the `bytes` partial decoder (either byte order, complex component swap), transpose, "
             "squeeze — and hence through EVERY chain of these stages in any order with or without inserted caches: the chain's partial decoder answers every in-bounds list of regions with exactly the regions "
             "of the fully decoded chunk, and an absent value with fill. On the real code every sub-box of sampled chunks goes through the chunk partial decoder / chunk-subset / chunk-crossing reads for chains over "
             "all registered codecs incl. nested sharding and is compared with the model AND with the implementation's own full decode + slice. The SHARDING partial decoder is modelled too (Model/ShardPD.lean: index read at its declared location, inner grid, per-inner-chunk byte interval + inner chain partial decoder, scatter; the size check of repaired entries) and proved: for every legal shard served by a handle, any rank, any inner/shard shape that tiles, either index location, `shardPD` answers every in-bounds region list with the regions of the assembled shard, an absent value with fill, a wrong-size live entry with an error; the chain theorem is extended to chains whose array-to-bytes codec is `sharding_indexed` nested to ANY depth (`chainS_partial_eq_full_slice`). The model is executed on the RAW stored shard bytes of real arrays (verb c02s: every sub-box, region lists, corrupted entries).",
    "note": _TB + "The variable-length branch of the sharding partial decoder (merge_chunks_vlen) and blosc's item-wise partial decode are corresponded, not part of the chain theorem; external compressors enter through the inversion law.",
    "technique": "Lean 4 compositional handle-invariant proof over partial decoders and chains + exhaustive sub-box differential reads",
}
TEXT["C14"] = {
    "level": "Machine-checked proof that for every data type (bool, 8-64 bit integers, float16/bfloat16/float32/float64, complex64/128, raw bits of any width, byte strings, strings) and every fill value "
             "the metadata conversion accepts, bytes -> metadata -> compact JSON text -> parsed document -> bytes is the identity: the JSON printer/parser pair is proved inverse on ALL documents (every string "
             "escape, nested arrays/objects, number tokens), every non-finite float pattern (both infinities, canonical NaN, every other NaN payload/sign via hex strings) round-trips with no assumption, finite floats "
             "round-trip given that serde_json reads back what it wrote (an explicit hypothesis, proved satisfiable by an exact-decimal codec and the correctly rounded reader), and widening to binary64 then narrowing "
             "is the identity for all four formats. Rejection is proved as decision logic: accepted metadata has the data type's JSON kind and size, integers are accepted exactly within range. On the real code every "
             "8-bit pattern, every float16/bfloat16 pattern, boundary-stratified and random 32/64/128-bit patterns go through DataType::metadata_fill_value/serde_json/fill_value_from_metadata and through a stored and "
             "re-opened array; the text of each finite float is checked to denote the value by the model's correctly rounded decimal reader; ~900 JSON texts of wrong kind/range/malformed x 20 data types are classified. A finite number whose nearest value of a narrower float type is infinite is rejected (repaired code; float_number_accept / float_number_overflow_rejected).",
    "note": _TB + "serde_json/ryu's decimal writer and reader are third-party code: their round trip is a hypothesis of the float theorems, checked on every generated finite float, not proved. A finite JSON number beyond a float type's range is read as IEEE conversion does (infinity), which the check accepts as the code's documented cast rather than demanding rejection.",
    "technique": "Lean 4 proofs of JSON print/parse inversion, float widening/narrowing and fill-value metadata round trip + exhaustive 8/16-bit and stratified wide differential run",
}
TEXT["C05"] = {
    "level": "Machine-checked proof about the partial-encoding algorithms as implemented: for EVERY history of sharding partial encodes starting from an absent value (either index location, either index "
             "byte order, with/without index checksum) the stored value is absent with every inner chunk fill, or decodes to exactly the inner chunks the updates leave and is a legal, tight shard; one step "
             "from any well-formed tight value preserves this with no side condition; unsharded chains rewrite the value to exactly the encoding of the updated chunk; a partial store write never truncates. "
             "The model of the code AS FOUND is kept beside it with the kernel-decided witness of the defect that was repaired (index at the end: stale tail after the live data shrinks, F-C05-K1). On the real "
             "code random histories of partial writes through store_chunk_subset/store_array_subset with partial encoding enabled run on sharded and unsharded chains; after every step the raw stored value is "
             "judged (exact encoding for modelled chains, well-formed shard + sentinel check otherwise) and all elements are read back; the pinned witness of the repaired defect runs first as a regression.",
    "note": _TB + "Partial: concurrent partial writers are out of scope of the model; key sets are not compared under partial encoding (see DESIGN 10.5); nested sharding is corresponded, not part of the shard-level theorems.",
    "technique": "Lean 4 proofs over a model of the sharding/default partial encoders (history invariant: decode + well-formedness + tightness; pinned defect witness) + raw-stored-value differential histories",
}
TEXT["C13"] = {
    "level": "Machine-checked proof over a model of serde's reading/writing of MetadataV3, additional fields, ArrayMetadataV3 and GroupMetadataV3 on ordered JSON: what is written reads back as the same value "
             "(names as given, configurations absent/empty/non-empty, must_understand:false, attributes in order, dimension names, additional fields with their key order) — at the JSON level and through the stored "
             "bytes (with the JSON print/parse inversion of C14) — parsing yields a well-formed document, so re-serialising a parsed document is a fixed point; every parsed field is the value under its key and "
             "every other key is an additional field; a document opens only if no additional field must be understood and shape, chunk grid and dimension names agree in rank. Hierarchy: over the ordered-map "
             "store model of C08, Group::children returns exactly the child prefixes with stored metadata, with their kinds; the recursive listing and Node::open return exactly the prefixes reachable through "
             "groups; node existence is the presence of a metadata key; erasing a prefix removes exactly the nodes beneath. On the real code ~1200 structured array documents (all field orders, name forms, "
             "unknown codecs/fields, rank disagreements, missing/ill-typed fields, unicode) go through serde twice and through Array::open / metadata() / store_metadata / re-open / store again plus a panic-guarded "
             "set of chunk operations; V2: ArrayMetadataV2 / GroupMetadataV2 reading and writing (node_type tag, .zattrs split, filters null/[]), and the V2->V3 interpretation (data type table with byte-order prefixes, order F => reversed transpose, dimension_separator => v2 key encoding, filters then array-to-bytes then compressor, blosc/zstd/zfpy/pcodec special cases, fill value mapping incl. null/NaN/Infinity strings) are modelled (Model/MetaV2.lean) with round-trip, fixed-point, field-faithfulness, rejection and conversion theorems (Props/C13V2*.lean, 45 theorems); ~3400 generated V2 documents per run go through serde twice and through array_metadata_v2_to_v3 and are compared with the model's text; V2 array/group documents also through the same store-reopen cycle; random create/erase histories of V2/V3 groups and arrays on memory, filesystem, object_store and opendal "
             "stores are compared with the model for children/child_paths/child_groups/child_arrays/Node::open/node_exists.",
    "note": _TB + "Partial: whether a given codec / data type / chunk grid configuration is usable is decided by the plugins, not modelled (the generator states which documents are built from valid parts); stored codec configurations are re-created by the codecs and are compared by name only; structured V2 data types and `|V<n>` names with non-ASCII digits are outside the modelled subset (driver answers `any`); repeated keys of typed fields (rejected by serde) are flagged by the generator; absence of panics after open is explored, not proved. Node names starting with `__` are hidden by the code only at the root (modelled as written).",
    "technique": "Lean 4 proofs of metadata document round trip / fixed point and of hierarchy discovery exactness + structured differential documents and random hierarchy histories on 4 store kinds",
}
TEXT["C12"] = {
    "level": "Machine-checked proof about an independent, specification-level Zarr reader/writer written in Lean (own DEFLATE decoder validated against zlib, gzip/zlib containers with CRC-32/Adler-32, "
             "shard index reader, chunk grid and key arithmetic, V2 C/F order): stored-block DEFLATE, gzip and zlib members read back; any chain of gzip/crc32c inverts; EVERY legal shard — inner chunks "
             "anywhere, in any order, with any padding, index at either end, either byte order, with/without checksum — decodes to its intended inner chunks, and the writer's placement is legal for every "
             "order/padding choice; a chunk written under any layout choice reads back and the reader's result does not depend on the layout; whole V3 and V2 arrays (ragged edges, omitted all-fill chunks, "
             "either key encoding/separator) read back. That reader is then run against the implementation in BOTH directions on generated configurations: it decodes every value zarrs stored to exactly "
             "what was written through the API, and zarrs reads arrays the model wrote with layout variations zarrs itself never emits.",
    "note": _TB + "The specification-level reader is this check's reading of the specifications; fixed-Huffman DEFLATE is exercised, its inversion theorem is a hypothesis (DeflateOk) proved for stored blocks; one level of sharding; data types of 1/2/4/8 bytes.",
    "technique": "Lean 4 proofs of layout-independence of a specification-level reader/writer + two-directional differential run (zarrs writes/model reads, model writes with foreign layouts/zarrs reads)",
}
TEXT["C07"] = {
    "level": "Machine-checked proof that what distinguishes the two APIs is unobservable in the model: the per-chunk steps of a multi-chunk write run in ANY order (the order concurrent futures complete) succeed exactly "
             "when the sequential run does and leave the same store; two routes to the same array that differ in key naming, codec or elision (the synchronous-only partial-encoding write strategy changes the stored "
             "bytes) return the same elements for every array-subset, chunk and multi-chunk read after every history and after every prefix of it, and with the same key naming store the same set of keys. On the "
             "real code every generated history (the C01 generator: all codecs incl. nested sharding, all grids, data types, elision on/off, one fifth with partial encoding on the sync side) is executed through the "
             "sync methods and through the async_* methods (incl. async partial decoders and re-opening) on stores of identical semantics; each pair of outcomes, the key sets and the readable contents are compared "
             "with each other and with the C01 model; hierarchy queries (children, child_paths, child_groups/arrays, Node::open, node_exists) are run in both forms over one store and judged by the C13 model. Every method pair found by an audit of the async files (encoded chunks, typed and ndarray forms, multi-chunk stores/erasures, metadata, partial encoders) runs through both APIs, the async side over an immediate adapter AND over stores whose futures suspend a deterministic, key-dependent number of times (completion order differs from issue order).",
    "note": _TB + "Partial: the async executor's interleavings are not enumerated (the order-independence theorem covers completion orders of per-chunk steps on distinct keys; same-key concurrency is C18's subject); error classes are compared as ok/err/none. The async store is an adapter over MemoryStore so that only the API layers differ (object_store rejects zero-length ranges, which is outside C08's contract).",
    "technique": "Lean 4 proofs of completion-order independence and route equivalence + lock-step differential execution of every history through the sync and async APIs",
}
NOT_YET = {}

# ---- additions of the second session (appended to the texts above)
TEXT["C05"]["level"] += (" At ELEMENT level the whole partial encoder of nested chains is modelled (`ChainS.partialEncode`: overlapped inner chunks, the straddle test as written, "
    "read-update-re-encode, elision, the default partial encoders of the other stages) and proved equal to the full rewrite for every reader, for one call and for every history "
    "from an absent key, with every sharding level legal afterwards (Props/C05Chain, 16 theorems); the model runs on the raw stored values of real partial-encode histories (`c05 pes`).")
TEXT["C16"]["level"] += (" The internal parallelism of the shard encoder is modelled as a small-step machine (one atomic fetch_add per inner chunk): under EVERY schedule the ranges "
    "are disjoint, the shard is legal and decodes to the same chunk although its bytes differ (Props/C16Shard); the non-atomic variant loses an update on a concrete schedule while "
    "all sequential schedules stay correct; a lock held across a join can deadlock, one not held cannot. Raw shards of up to 1024 inner chunks written at several concurrency "
    "targets are checked for overlapping entries and equal decoded contents; a sharded-extension stress with a second client must complete.")
TEXT["C02"]["level"] += (" Variable-length chains (`ChainV`: transposes + vlen_v2/vlen + bytes-to-bytes stages) have the same theorem (`chainV_partial_eq_full_slice`, Props/C01Vlen) "
    "and the same raw-value tie (`c02v`).")
TEXT["C01"]["level"] += (" Likewise for variable-length arrays over the vlen codecs (`read_after_history_vlen`, with the byte-level update/merge/extract/fill-test functions proved equal "
    "to their element-level meaning).")
TEXT["C20"]["level"] += (" At the level of single STORE OPERATIONS every method is modelled as the program of store calls it issues (Model/FaultOps.lean; the store counts its operations and fails "
    "a given set of ordinals, exactly the harness's FaultStore): for every k up to the number of operations of the fault-free run, a fault at the k-th operation is an error (any method, "
    "any start order of the per-chunk closures of a parallel method); single-chunk writes are atomic; a faulted read-modify-write leaves the chunk; multi-chunk writes leave every key "
    "previous-or-intended; a retry converges, also for the two-key V2 metadata store; faulted reads change nothing; a failed fill of a chunk cache caches nothing; a V2 open is three "
    "reads each of whose faults is an error (Props/C20Ops, 24 theorems + two seeded variants as counterexamples). The harness records each faulted call's trace of store operations; the "
    "write operations must be those of the model's program.")
TEXT["C08"]["level"] += (" The filesystem store's ranged read is proved EQUAL to the map's (`fs_getPartial_exact`) since the repair that validates every byte range; extreme offsets (2^63, 2^64-1) are generated.")
TEXT["C12"]["level"] += (" DEFLATE is no longer a hypothesis for stored blocks only: RFC 1951 is modelled as a WRITER specification (Model/DeflateSpec.lean: tokens, canonical Huffman codes from "
    "code lengths, the code-length code with any run-length encoding, stored/fixed/dynamic blocks in any mix, gzip with all optional header fields, zlib) and the independent reader is PROVED to inflate "
    "every stream that specification can write (Props/C12Deflate: inflate_stream, gunzip_stream, unzlib_stream; conformant_writer_ok discharges the DeflateOk hypothesis of the layout theorems for ANY "
    "conformant writer). 2400 specification-written streams per run (random code trees, non-optimal codes, header slack, overlapping and far copies) are decoded by zarrs' own gzip/zlib codecs and partial decoders.")
TEXT["C13"]["level"] += (" The metadata OPTIONS are modelled (Model/MetaOpts.lean: version conversion, `_zarrs` attribute, alias conversion with the alias tables as data, encode-only codecs, which keys are written or erased) "
    "and proved: every accepted document under every one of the 16 option settings is accepted again and denotes the same array, store-open-store is a fixed point, names are as given with alias conversion off and default "
    "names with it on, a V2 data type is kept (the unrepaired variant is a counterexample theorem) (Props/C13Opts, 28 theorems); ~2100 documents x option settings per run are stored through store_metadata_opt and the stored keys and texts compared with the prediction.")
TEXT["C05"]["level"] += (" Kept partial encoders (several partial_encode calls and erase() on ONE handle, `c05 pesr`) must behave like a fresh encoder per call: binding for unsharded chains and chains whose outermost stage is the sharding codec "
    "(the cached shard index is the state the property names; one defect repaired), a recorded known finding for chains with a stage in front of a sharding codec.")
TEXT["C03"]["level"] += (" zfp: every mode on the ten data types it accepts, 1-4 dimensions: reversible mode exact, fixed-accuracy within the tolerance (exact rationals), declared size always (uint32/uint64 clamping: recorded known finding).")
TEXT["C12"]["level"] += (" gzip FILES of several members are read by the specification-level reader (gunzipAll, proved on every file of specification-written members, Props/C12Gzip) and generated; conformant values of nested chains are also read through zarrs' partial decoders (c03 chainpd).")
TEXT["C16"]["level"] += (" The concurrency split itself (concurrency_chunks_and_codec, calc_concurrency_outer_inner, RecommendedConcurrency::new) is modelled and proved to hand down the caller's options unchanged for every target and to stay within the recommendations (Props/C16Conc, 26 theorems); 3200 direct calls per run and end-to-end observables are compared with the model. Two free-running stress lines (chunk keys sharing a directory on a filesystem store) support the search.")
TEXT["C18"]["level"] += (" One free-running stress line (first accesses to a key of a fresh FilesystemStore instance are concurrent) supports the search where no yield point exists.")
TEXT["C20"]["level"] += (" Hierarchy listings (children, child_*, Node::open) are swept too: every fault is an error and a successful listing is complete.")
TEXT["C02"]["level"] += (" The packbits partial decoder is a proved stage of the chain theorem too (Props/C02PackBits: packbitsPD_serves for any rank, region list, component count, bit range and padding; chains transpose*;packbits;bytes-to-bytes*), tied by running the model on the raw stored chunks of real packbits arrays (c02p).")
TEXT["C20"]["level"] += (" The listings are programs of the operation-level model as well (Props/C20List: a fault at any position is an error for every listing method, and a listing that succeeds under any failing set is complete).")
TEXT["C15"]["level"] += (" The bounds test of a shard index entry is modelled on 64-bit words as written (checked addition) and proved equal to the unbounded test for all values; an accepted entry denotes a slice inside the value (Props/C15Entry).")
TEXT["C03"]["level"] += (" fixedscaleoffset has a model and theorems now (Props/C03Fso: the rational specification is within 1/(2*scale) with equality exactly at ties; the float computation equals it whenever its intermediates are representable; integer types with scale 1 are lossless exactly when x-offset fits both types; the advertised fill value, data type and shape are those of the encoding), with encoded bytes and decoded values predicted exactly for the integer class.")
TEXT["C13"]["level"] += (" Consolidated metadata is inside the model (Props/C13Cons: round trips, fixed points including order independence of the map, Node::consolidate_metadata lists exactly the descendants of the hierarchy model with their stored documents) and so are the builders (Props/C13Build: exact success condition and document of ArrayBuilder::build, array.builder().build() denotes the same array); both are predicted line by line.")
TEXT["C07"]["level"] += (" Shards altered behind the API (a wrong index entry inside the value) are read through both forms: whatever the answer, it must be the same.")
TEXT["C17"]["level"] += (" Asynchronous multi-chunk reads are recorded and judged by tiling as well; regions beyond the array (and beyond a rectangular grid) are included.")
TEXT["C02"]["note"] += " Every request is executed by two builds of the harness (zarrs with and without its async feature: the cfg(not(feature = async)) copies of the default partial decoders/encoders are what a default-feature build runs)."
TEXT["C04"]["note"] += " Every request is executed by two builds of the harness (zarrs with and without its async feature: the cfg(not(feature = async)) copies of the default partial decoders/encoders are what a default-feature build runs)."
TEXT["C05"]["note"] += " Every request is executed by two builds of the harness (zarrs with and without its async feature: the cfg(not(feature = async)) copies of the default partial decoders/encoders are what a default-feature build runs)."
TEXT["C07"]["level"] += (" The asynchronous sharding partial decoder - a different algorithm from the synchronous one - is modelled and proved to return exactly what the synchronous decoder returns on every legal shard (Props/C07Shard: asyncShardPD_eq_shardPD; both err on wrong-size / out-of-value entries; its views tile the buffer); the async model runs on the raw stored shards of real arrays (c02s route=async).")
TEXT["C17"]["level"] += (" Regions overhanging the array inside the grid extent are proved to be tiled as well (Props/C17Oob).")
TEXT["C20"]["level"] += (" The sharding partial encoder (experimental partial encoding) is swept under faults for chains whose only top-level codec is sharding_indexed: every fault is an error, nothing panics, and a retry converges to the fault-free array (judged on decoded contents); the previous-or-intended clause is not claimed on that path.")
TEXT["C20"]["note"] += " Known finding F-C20-K1: the sharding partial encoder's erase-then-write cases lose the shard when the write fails (experimental path; matched by the failing operation, so a different tear is still reported)."
TEXT["C20"]["level"] += (" Props/C20PE states it for the encoder as a store-operation program: plans that publish in at most one store operation leave the shard untouched on every failed call and a retry converges (any number of reads, any failing set); the erase-then-write and two-write shapes are refuted by concrete witnesses.")
TEXT["C08"]["level"] += (" The multi-key ranged get (get_partial_values, batched by key) is called on every store kind with present and absent keys and predicted request by request.")
TEXT["C04"]["level"] += (" A third of the fill-heavy cases also run as sync/async twin requests (the asynchronous whole-chunk and multi-chunk writes decide about elision in their own copies of the code).")
TEXT["C08"]["level"] += (" The batching loop itself is modelled as written (Model/MultiGet) and proved equal to the request-by-request specification for every store content and request list (Props/C08Multi: batched_eq_reqwise).")
TEXT["C15"]["level"] += (" A family with a checksum directly over an odd number of payload bytes (one-byte elements) covers the separate last-byte path of the word-based checksums.")
