#!/usr/bin/env python3
"""Import the seeded changes a sub-agent left in /tmp/seed/<Cxx>_out into /verif/seeded/<Cxx>_m<i>/ and run the
checks against each (all claimed checks unless a list is given).  usage: seedimport.py Cxx [Cyy ...] [--checks=C01,C02] [--root=/tmp/seed2] [--offset=2]   (round 2: m1/m2 become Cxx_m3/Cxx_m4)"""
import json, os, shutil, subprocess, sys
ROOT = os.path.dirname(os.path.dirname(os.path.abspath(__file__)))
def main():
    args = [a for a in sys.argv[1:] if not a.startswith("--")]
    checks = None
    root, offset = "/tmp/seed", 0
    own_first = "--own-first" in sys.argv
    own_only = "--own-only" in sys.argv   # the property's own check only (fast triage; the other checks are run later for the misses)
    for a in sys.argv[1:]:
        if a.startswith("--checks="): checks = a.split("=", 1)[1].split(",")
        if a.startswith("--root="): root = a.split("=", 1)[1]
        if a.startswith("--offset="): offset = int(a.split("=", 1)[1])
    for pid in args:
        src = "%s/%s_out" % (root, pid)
        for i in (1, 2, 3):
            if not os.path.exists(os.path.join(src, "m%d.diff" % i)): continue
            name = "%s_m%d" % (pid, i + offset)
            dst = os.path.join(ROOT, "seeded", name)
            os.makedirs(dst, exist_ok=True)
            shutil.copy(os.path.join(src, "m%d.diff" % i), os.path.join(dst, "patch.diff"))
            for f, t in (("m%d_demo.rs" % i, "demo.rs"), ("m%d_demo_pristine.txt" % i, "demo_pristine.txt"), ("m%d_demo_mutated.txt" % i, "demo_mutated.txt"),
                         ("m%d_demo_pristine.log" % i, "demo_pristine.txt"), ("m%d_demo_mutated.log" % i, "demo_mutated.txt")):
                if os.path.exists(os.path.join(src, f)): shutil.copy(os.path.join(src, f), os.path.join(dst, t))
            try: meta = json.load(open(os.path.join(src, "m%d_meta.json" % i)))
            except Exception: meta = {"property": pid}
            def run(cs):
                r = subprocess.run([sys.executable, os.path.join(ROOT, "lib", "seedcheck.py"), os.path.join(dst, "patch.diff"), name] + cs, capture_output=True, text=True)
                print(r.stdout[-3000:], r.stderr[-500:], flush=True)
                try: return json.load(open(os.path.join(ROOT, "work", "seedruns", name, "result.json")))
                except Exception: return {}
            if own_only and not checks:
                res = run([pid])
            elif own_first and not checks:
                # the property's own check first; the other checks only when it misses the change
                res = run([pid])
                if not any(l.startswith("VIOLATION") and "no-failing-input-found" not in l for l in res.get(pid, {}).get("lines", [])):
                    allp = [c["property_id"] for c in json.load(open(os.path.join(ROOT, "MANIFEST.json")))["checks"] if c["property_id"] != pid]
                    res2 = run(allp); res2.update(res); res = res2
            else:
                res = run(checks or ["all"])
            det = {}
            for c, v in res.items():
                viol = [l for l in v["lines"] if l.startswith("VIOLATION")]
                if viol:
                    inputs = [l for l in viol if "no-failing-input-found" not in l]
                    det[c] = "failing input: " + inputs[0].split("replay=")[1].split("/")[-1] if inputs else "proof/correspondence broken, no failing input"
                    # keep one replay per detecting check as the demonstration by the machinery itself
                    if inputs:
                        rp = inputs[0].split("replay=")[1].split()[0]
                        if os.path.exists(rp): shutil.copy(rp, os.path.join(dst, "replay_%s.txt" % c))
            meta["detected_by"] = det
            meta["checks_run"] = sorted(res.keys())
            meta["origin"] = "fresh sub-agent given only the property record and a scratch worktree"
            json.dump(meta, open(os.path.join(dst, "meta.json"), "w"), indent=1)
            print(name, "detected by", sorted(det.keys()))
main()
