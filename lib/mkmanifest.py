#!/usr/bin/env python3
"""Regenerate /verif/MANIFEST.json from lib/props.py (claimed checks) and properties.jsonl (everything else -> not_applicable)."""
import json, os, sys, subprocess
ROOT = os.path.dirname(os.path.dirname(os.path.abspath(__file__)))
sys.path.insert(0, os.path.join(ROOT, "lib"))
from props import PROPS
from manifest_text import TEXT, NOT_YET

props = [json.loads(l)["id"] for l in open(os.path.join(ROOT, "properties.jsonl"))]
commits = subprocess.run(["git", "-C", "/repo", "log", "--format=%h %s"], stdout=subprocess.PIPE).stdout.decode().split("\n")
hook_commits = [c.split()[0] for c in commits if c and "verif hook" in c]
checks = []
for pid in props:
    if pid in PROPS and PROPS[pid].get("claimed", True):
        t = TEXT[pid]
        checks.append({
            "property_id": pid,
            "quick_cmd": "./check %s --tier quick" % pid,
            "thorough_cmd": "./check %s --tier thorough" % pid,
            "evidence_file": "/verif/evidence/%s.json" % pid,
            "replay_cmd_template": "./check %s --replay {path}" % pid,
            "engine": "lean4-proof+correspondence",
            "level_claimed": {"category": "proof", "text": t["level"], "design_ref": "DESIGN.md section 5 (%s)" % pid},
            "level_note": t["note"],
            "technique": t["technique"],
        })
na = [{"property_id": p, "reason": NOT_YET.get(p, "check not built yet (construction in progress; DESIGN.md section 9 gives the staging order)")}
      for p in props if not (p in PROPS and PROPS[p].get("claimed", True))]
m = {
    "version": 1,
    "setup_cmd": "./check --setup",
    "hooks": {
        "guard": "zarrs_verif",
        "enable": "RUSTFLAGS '--cfg zarrs_verif' set for the harness build in /verif/harness/.cargo/config.toml (the harness path-depends on the crates in /repo)",
        "baseline_off_cmd": "cd /repo && cargo test --workspace --no-fail-fast --offline",
        "source_commits": hook_commits,
        "add_only": True,
    },
    "engines": [{
        "name": "lean4-proof+correspondence",
        "path": "/verif/check",
        "serves_properties": [c["property_id"] for c in checks],
        "kind_free_text": "Lean 4 theorems about a hand-written executable model (lean/ZarrsModel/Props/*.lean, re-checked and axiom-audited on every run) "
                          "+ differential correspondence: Rust harness (harness/) runs generated cases on /repo's working tree, compiled Lean driver replays them through the model",
    }],
    "checks": checks,
    "notes": "See DESIGN.md. Known findings / fixed defects: known_findings.jsonl. Seeded mutations used to test the checks: seeded/.",
    "not_applicable": na,
}
json.dump(m, open(os.path.join(ROOT, "MANIFEST.json"), "w"), indent=1)
print("claimed:", [c["property_id"] for c in checks])
