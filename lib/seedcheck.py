#!/usr/bin/env python3
"""Run checks against a seeded change: apply the patch to /repo, run the given checks (quick tier unless --thorough),
undo the patch.  Evidence and replays of these runs go to work/seedruns/<name>/ (not to /verif/evidence).
usage: seedcheck.py <patch.diff> <name> [--thorough] C01 C02 ...   ('all' = every claimed check)"""
import json, os, subprocess, sys
ROOT = os.path.dirname(os.path.dirname(os.path.abspath(__file__)))
def main():
    a = sys.argv[1:]
    patch, name = a[0], a[1]
    tier = "thorough" if "--thorough" in a else "quick"
    props = [x for x in a[2:] if not x.startswith("--")]
    if props == ["all"]:
        props = [c["property_id"] for c in json.load(open(os.path.join(ROOT, "MANIFEST.json")))["checks"]]
    out = os.path.join(ROOT, "work", "seedruns", name)
    os.makedirs(out, exist_ok=True)
    st = subprocess.run(["git", "-C", "/repo", "status", "--porcelain"], capture_output=True, text=True).stdout.strip()
    if st:
        print("refusing: /repo is not clean:\n" + st); return 2
    r = subprocess.run(["git", "-C", "/repo", "apply", os.path.abspath(patch)], capture_output=True, text=True)
    if r.returncode != 0:
        print("patch does not apply: " + r.stderr); return 2
    res = {}
    try:
        env = dict(os.environ); env["VERIF_OUT_DIR"] = out
        for p in props:
            r = subprocess.run([os.path.join(ROOT, "check"), p, "--tier", tier], capture_output=True, text=True, env=env)
            lines = [l for l in r.stdout.split("\n") if l.startswith(("VIOLATION", "PASS", "KNOWN-FINDING"))]
            res[p] = {"rc": r.returncode, "lines": [l[:300] for l in lines]}
            print(p, "rc=%d" % r.returncode, "; ".join(l[:160] for l in lines if not l.startswith("KNOWN")))
    finally:
        subprocess.run(["git", "-C", "/repo", "checkout", "--", "."])
        subprocess.run(["git", "-C", "/repo", "clean", "-fdq", "--", "zarrs", "zarrs_storage", "zarrs_metadata", "zarrs_data_type", "zarrs_filesystem", "zarrs_object_store", "zarrs_opendal", "zarrs_zip", "zarrs_http"])
    json.dump(res, open(os.path.join(out, "result.json"), "w"), indent=1)
    return 0
sys.exit(main())
