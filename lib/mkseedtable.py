#!/usr/bin/env python3
"""Regenerate the seeded-change table of DESIGN.md section 10.6 from seeded/*/meta.json."""
import glob, json, os, re
ROOT = os.path.dirname(os.path.dirname(os.path.abspath(__file__)))
rows = []
for d in sorted(glob.glob(os.path.join(ROOT, "seeded", "*"))):
    try: m = json.load(open(os.path.join(d, "meta.json")))
    except Exception: continue
    name = os.path.basename(d)
    det = m.get("detected_by", {})
    own = name.split("_")[0]
    det = dict(det); det.update(m.get("recheck", {}))
    inputs = sorted(c for c, v in det.items() if v.startswith("failing input"))
    summ = (m.get("summary") or m.get("description") or "").replace("\n", " ").replace("|", "\\|")
    if len(summ) > 230: summ = summ[:227] + "..."
    files = ", ".join(os.path.basename(f) for f in m.get("files", [])[:2])
    rows.append("| %s | %s | %s | %s | %s | %s |" % (name, own, files, summ,
        "**yes**" if own in inputs else ("no" if own in m.get("checks_run", []) else "n/a"),
        ", ".join(c for c in inputs if c != own) or "-"))
table = ["| seeded change | property | file | what was changed | caught by its own check (quick tier, with a failing input) | also caught by |", "|---|---|---|---|---|---|"] + rows
notes = open(os.path.join(ROOT, "seeded", "NOTES.md")).read() if os.path.exists(os.path.join(ROOT, "seeded", "NOTES.md")) else ""
d = open(os.path.join(ROOT, "DESIGN.md")).read()
start = d.index("### 10.6 Seeded changes")
end = d.index("### 10.7") if "### 10.7" in d else d.index("## Appendix A")
head = d[start:].split("\n\n")[0:2]
body = "\n\n".join(head) + "\n\n" + "\n".join(table) + "\n\n" + notes + "\n"
d = d[:start] + body + d[end:]
open(os.path.join(ROOT, "DESIGN.md"), "w").write(d)
print(len(rows), "rows")
