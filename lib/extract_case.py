#!/usr/bin/env python3
"""extract_case.py ops N out: write the case block containing line N (up to and including line N) to out"""
import sys
ops=open(sys.argv[1]).read().split('\n'); n=int(sys.argv[2])
s=n
while ' cfg ' not in ops[s-1]: s-=1
open(sys.argv[3],'w').write('\n'.join(ops[s-1:n])+'\n')
