"""Per-property configuration of ./check (lean modules, harness sub-command, coverage rule, trusted base)."""

COMMON_TB = [
    "correspondence check: Rust harness (/verif/harness, unverified) executes generated cases on /repo's working tree; "
    "Lean driver (/verif/lean/Driver.lean + ZarrsModel/Driver/*, unverified parsing/printing glue around the verified "
    "definitions) replays them through the model; agreement outside the explored cases is assumed",
    "the Lean model is a hand translation of the Rust source (Nat for u64/usize; overflow outside the model)",
]

def _n_at_least(line, key, k):
    # helper: numeric `key=` field at least k
    import re
    m = re.search(r"\b%s=(\d+)" % key, line)
    return bool(m) and int(m.group(1)) >= k

PROPS = {
    "C09": {
        "lean_props": ["ZarrsModel.Props.C09", "ZarrsModel.Props.C09Api"],
        "harness": "c09",
        "rule": "exhaustive enumeration of array shapes (rank 0..3, extents 0..3; thorough: rank 4 extents 0..2) x every in-bounds "
                "subset x {indices, linearised, contiguous, contiguous-linearised, byte ranges, extract, chunks, rayon split trees, "
                "forward/backward/mixed direction patterns} + sampled/exhaustive subset pairs for overlap/inbounds + rank-mismatch stream + "
                "large extents near 2^31..2^40; non-trivial = distinct request whose implementation outcome is a value (not err/panic) "
                "and whose subset is non-empty (no 0 in shape=)",
        "nontrivial": lambda l: " -> val" in l and not __import__("re").search(r"shape=[0-9,]*\b0\b", l.split(" -> ")[0]),
        "exhaustive": True,
        "exhaustive_scope": "all (array shape, in-bounds subset) pairs with rank<=3 and extents<=3 (rank 3: extents<=2 in quick tier)",
        "trusted_base": COMMON_TB,
        "assumptions": ["u64 wrap-around excluded (extents and products below 2^64)",
                        "rayon's bridge is exercised only through Producer::split_at/into_iter (the public plumbing API)"],
    },
    "C10": {
        "lean_props": ["ZarrsModel.Props.C10", "ZarrsModel.Props.C10Api"],
        "harness": "c10",
        "rule": "exhaustive 1-D enumeration: every dimension kind (fixed 1..3; every composition of totals 0..6 as a varying size list) x array "
                "extents 0..7 x every element 0..a+1, chunk index 0..count+1, in-bounds region and box of chunks, each queried on the grid as built "
                "and on the grid re-created from its serialised metadata, through both RegularChunkGrid and RectangularChunkGrid; plus random "
                "2-D/3-D mixed grids (dense when <=16 elements), rank mismatches and extents up to 2^40; non-trivial = distinct request with a "
                "value outcome that is not all-none and whose grid has a varying dimension or a ragged regular edge",
        "nontrivial": lambda l: " -> val" in l and "=none" not in l.split(" -> ")[1] and " none" not in l.split(" -> ")[1],
        "exhaustive": True,
        "exhaustive_scope": "all 1-D grids with fixed size<=3 or varying sizes summing to <=6, array extents 0..7, all elements/chunks/regions",
        "trusted_base": COMMON_TB,
        "assumptions": ["u64 overflow of chunk_index*chunk_size excluded", "serde_json round trip of the configuration is exercised (via=meta), not modelled"],
    },
    "C07": {
        "lean_props": ["ZarrsModel.Props.C07", "ZarrsModel.Props.C07Shard"],
        "harness": "c07",
        "harness_also": ["c02s"],
        "rule": "every case of the C01 generator (random array configurations over all registered codecs incl. nested sharding, regular/rectangular grids, 12 data types, elision on/off; one fifth with "
                "experimental partial encoding enabled on the synchronous side) with 1..10 (thorough 30) write operations, interleaved reads of all kinds, partial-decoder requests of 1-3 sub-boxes, key "
                "listings, a contents comparison through fresh handles, re-opening and full reads; each line executed through the sync and the async API; plus 150 (thorough 1500) hierarchy histories whose "
                "queries run in both forms; non-trivial = distinct request whose common outcome is a non-empty value / key list / node list",
        "nontrivial": lambda l: "MISMATCH" not in l and ((" -> val " in l and not l.endswith("~")) or (" -> keys " in l and not l.endswith("~")) or " -> nodes /" in l),
        "exhaustive": False,
        "trusted_base": COMMON_TB + ["the async executor (tokio current-thread) and the harness' async adapter over MemoryStore"],
        "assumptions": ["both stores start empty with the same metadata document", "error classes are compared as ok/err/none"],
        "timeout": 3000,
    },
    "C12": {
        
        "lean_props": ["ZarrsModel.Props.C12", "ZarrsModel.Props.C12Fixed", "ZarrsModel.Props.C12Deflate", "ZarrsModel.Props.C12Gzip"],
        "harness": "c12",
        "harness_also": ["c12n"],
        "driver_gen_also": True,
        "rule": "direction w (zarrs writes, the specification-level reader reads): V3 arrays of rank 0..3 with ragged edges, 4 data types, non-zero fill values, default/v2 key encodings with either separator, "
                "chains of 0..2 transposes, `bytes` in either byte order or `sharding_indexed` (inner transposes/bytes/gzip/crc32c, either index location, either index byte order, with/without index checksum), "
                "gzip/crc32c in any order; V2 arrays with C/F order, either byte order, `.`/`/`/default separator, compressor null/zlib/gzip, filters null/[]/absent; 2..8 (thorough 12) region/chunk writes and "
                "erasures each, every stored value dumped and decoded by the model after a third of the operations and at the end. Direction r (the model writes, zarrs reads): the same configuration space, "
                "values encoded by the model with layout choices zarrs never makes (inner chunks in reverse order, 0/1/5 bytes of padding before each, stored-block or fixed-Huffman DEFLATE, gzip FEXTRA/FNAME "
                "fields, whole chunks left out), read through Array::open + retrieve_array_subset (whole and 3 random regions) + retrieve_chunk; non-trivial = distinct request whose outcome is a non-empty value or dump",
        "nontrivial": lambda l: (" -> val " in l and not l.endswith("~")) or (" -> kv " in l and not l.endswith("~")),
        "exhaustive": False,
        "trusted_base": COMMON_TB + ["the specification-level reader/writer (Zarrs.Conform, Zarrs.Inflate) is this check's reading of the Zarr V3/V2 specifications and RFC 1950-1952; its DEFLATE decoder is run against flate2 output of every block type and level 0..9 in each check (c12 inflate lines) and was validated once against Python zlib"],
        "assumptions": ["data types with a specified binary form of 1/2/4/8 bytes (complex and raw-bits types differ only in element size handling)", "one level of sharding"],
        "timeout": 3000,
    },
    "C13": {
        
        "lean_props": ["ZarrsModel.Props.C13", "ZarrsModel.Props.C13V2", "ZarrsModel.Props.C13V2Conv", "ZarrsModel.Props.C13Opts", "ZarrsModel.Props.C13Cons", "ZarrsModel.Props.C13Build"],
        "harness": "c13",
        "rule": "MetadataV3 texts (24 fixed forms incl. sequence form, null/ill-typed members, unknown keys + random); structured ArrayMetadataV3 documents: ranks 0..3, 7 data types with matching fill "
                "values, string/object/empty-configuration name forms, all chunk key encodings, transpose/bytes/gzip/crc32c/zstd codec lists with unknown skippable codecs, attributes (nested, unicode, "
                "escapes, all number kinds, `_zarrs`, `must_understand` keys), storage_transformers, dimension_names with nulls, 0..3 additional fields with `must_understand:false` at any key position, shuffled "
                "field order; one third mutated by one of 15 faults (format/node type, missing field, ill-typed shape, rank disagreement of shape/grid/dimension names, unknown or malformed data type / grid / "
                "key encoding / codec / storage transformer incl. 20 unusable-but-well-formed codec lists, wrong fill, ill-typed attributes, must-understand additional field of 10 shapes, repeated key); each "
                "through serde twice and through open/metadata/store/re-open/store/operations; group documents likewise; V2 array and group documents (60% within the supported subset) through serde twice and "
                "store/re-open; hierarchy histories of 4..20 (thorough 40) operations (create V2/V3 group/array, erase metadata, erase prefix, stray keys, reserved `__` names) with every query after and at the end, "
                "on memory / filesystem / object_store / opendal stores; non-trivial = distinct request with an `ok`/`ser=`/`nodes` outcome",
        "nontrivial": lambda l: (" -> ok " in l or " -> ser=" in l or " -> nodes /" in l or " -> all=/" in l or " -> groups=/" in l),
        "exhaustive": False,
        "trusted_base": COMMON_TB + ["serde derive semantics (field order, flatten, untagged, sequence form) are modelled by hand and tied by the correspondence only", "plugin acceptance of a configuration is the generator's statement (documents built from valid parts must open; others may go either way)"],
        "assumptions": ["numbers in documents are written in serde_json's own canonical text", "node names are ASCII (object_store percent-encodes others)", "fill values that are JSON objects (HashMap order) are not compared"],
        "timeout": 3000,
    },
    "C14": {
        
        "lean_props": ["ZarrsModel.Props.C14"],
        "harness": "c14",
        "rule": "round trips (DataType::metadata_fill_value -> serde_json::to_string -> serde_json::from_slice -> fill_value_from_metadata, and ArrayBuilder -> store_metadata -> Array::open): "
                "all 256 patterns of bool/int8/uint8/r8; all 65536 patterns of float16 and bfloat16 (16-bit integers/r16 exhaustively in the thorough tier, boundary sample in quick); 32/64-bit "
                "integers at 0, +-1, 2^k, min, max and random; float32/float64 at +-0, subnormal/normal extremes, +-inf, canonical/quiet/signalling NaN payloads of both signs, powers of two and "
                "neighbours, decimal-short values (0.1, 1e23, 5e-324 ...) and random patterns; complex pairs of those; raw bits of 8..256 bits; byte strings; UTF-8 strings with quotes, escapes, "
                "control characters, 2-4 byte sequences, and invalid UTF-8; wrong-size values for every fixed-size type. Rejection stream: ~170 fixed JSON texts (wrong kinds, range boundaries of every "
                "integer width, float overflow/underflow, near-ties for narrowing, hex strings of wrong length/case/non-ASCII, malformed JSON, surrogates, invalid UTF-8) plus random decimals, "
                "midpoint-nudged decimals and mutated texts, each against 20 data types; non-trivial = distinct request whose outcome is a value",
        "nontrivial": lambda l: (" -> json=" in l or " -> val " in l),
        "exhaustive": True,
        "exhaustive_scope": "all bit patterns of the 8-bit types and of float16/bfloat16 (every tier); of int16/uint16/r16 (thorough tier)",
        "trusted_base": COMMON_TB + ["serde_json/ryu number formatting and parsing: the float theorems assume reading returns what was written (NumCodec.Good); each generated case checks the text against the model's correctly rounded reader"],
        "assumptions": ["native byte order is little-endian", "half's binary64->binary16 path (direct or through binary32 with F16C) and binary64->bfloat16 truncation are accepted either way for numbers that are not exactly representable"],
        "timeout": 3000,
    },
    "C11": {
        "lean_props": ["ZarrsModel.Props.C11"],
        "harness": "c11",
        "rule": "Array::chunk_key on real arrays (built directly and re-opened from stored metadata): 2 encodings x 2 separators x 10 node paths "
                "(root, nested, names equal to 'c', '0', 'zarr.json') x ranks 0..5 x coordinates drawn from {0,9,10,99,100,2^32+-1,2^63,2^64-1,10^k+-1,random}; "
                "exhaustive coordinates 0..11 for ranks 0..2; malformed key/path stream for the validators; non-trivial = distinct key request of rank>=1",
        "nontrivial": lambda l: l.startswith("c11 key") and "idx=-" not in l and " -> val" in l,
        "exhaustive": False,
        "trusted_base": COMMON_TB + ["u64::to_string is tied to Nat.toDigits 10 by the correspondence only"],
        "assumptions": ["node paths and keys are ASCII in the generated cases"],
    },
    "C08": {
        "lean_props": ["ZarrsModel.Props.C08", "ZarrsModel.Props.C08Fs", "ZarrsModel.Props.C08Async", "ZarrsModel.Props.C08Multi"],
        "harness": "c08",
        "rule": "random operation sequences (4..30 ops; thorough: up to 200) over a hierarchy-shaped universe of 12 keys / 9 prefixes with values of 0..12 bytes and "
                "in- and out-of-bounds ranges of all three forms, on 11 stores: memory, filesystem (with and without direct I/O, on disk under /verif/work), "
                "usage-log and performance-metrics adapters, object_store (InMemory, LocalFileSystem) and opendal (Memory, Fs) through the async-to-sync adapter "
                "and opendal's blocking store, and the zip adapter (archive rebuilt from the state before every read, stored and deflated); the driver advances "
                "the ordered-map model and accepts for an out-of-bounds ranged read an error or the truncated slice; non-trivial = distinct (store kind, request, outcome) "
                "with a non-empty result",
        "nontrivial": lambda l: (" -> some " in l or " -> keys " in l or " -> dir " in l or " -> val " in l) and not l.endswith("~") ,
        "exhaustive": False,
        "trusted_base": COMMON_TB + ["third-party back ends (object_store, opendal, zip, OS file system) are only corresponded, not modelled"],
        "assumptions": ["keys are ASCII; empty values and zero-length ranges are not sent to object_store/opendal back ends (as the property states)"],
        "timeout": 3000,
    },
    "C19": {
        "lean_props": ["ZarrsModel.Props.C19"],
        "harness": "c19",
        "rule": "every enumerated public operation (array open / metadata_opt / store_metadata / builder rebuild / to_v3 / CodecChain::from_metadata / "
                "CodecOptions+ArrayMetadataOptions+GroupMetadataOptions defaults / write+read+partial-decode+erase / partial-encode / erase_metadata / group+node operations) "
                "x configurations (hand-written V2 documents incl. order F and fixedscaleoffset filter, V3 fixedscaleoffset, doubly nested sharding, and generated chains over all "
                "registered codecs) runs on a single logical call stack (rayon pool of one thread) with hook H3 recording for each acquisition of the configuration lock whether "
                "it was completely free; the driver requires a flat trace; non-trivial = distinct (operation, configuration) with at least one acquisition",
        "nontrivial": lambda l: " -> val probes=1" in l,
        "exhaustive": False,
        "trusted_base": COMMON_TB + ["hook H3 (try_write probe in global_config/global_config_mut, cfg(zarrs_verif)); std RwLock writer preference is modelled, not verified",
                                     "an operation not enumerated by the harness is not covered by the monitored hypothesis 'its trace is flat'"],
        "assumptions": ["single logical call stack during probing (rayon pool of one thread); other threads do not touch the configuration while an operation is probed"],
    },
    "C06": {
        "lean_props": ["ZarrsModel.Props.C06"],
        "harness": "c06",
        "rule": "random configuration (all data types, grids, key encodings, chains incl. nested sharding/transposes/compressors/checksums; half of them sharded) + random write history, "
                "then 8..24 (thorough 10..60) reads with repeats through: retrieve_chunk/_if_exists/chunks/chunk_subset/array_subset, typed element and ndarray forms, partial_decoder with "
                "two regions, the sharded-extension routes (inner chunk, inner chunks, sharded array subset, effective inner chunk shape) with their shard-index cache, and 2-3 of the 8 "
                "chunk-cache flavours at capacities {0,1,2,1000} chunks / {0,1,16,64,2^20} bytes; every route is compared with the model's plain read of the same region; "
                "non-trivial = distinct read request returning at least one non-fill element through a non-plain route",
        "nontrivial": lambda l: " -> val " in l and any(v in l for v in (" cached_", " typed_", " nd_", " pd ", " inner_", " sharded_")),
        "exhaustive": False,
        "trusted_base": COMMON_TB + ["moka / lru crate internals are abstracted to get/insert/evict-some (any eviction that never invents entries)"],
        "assumptions": ["the store is unchanged between the reads of one case"],
    },
    "C01": {
        "lean_props": ["ZarrsModel.Props.C01", "ZarrsModel.Props.C01Chain", "ZarrsModel.Props.C01Vlen"],
        "harness": "c01",
        "rule": "random configuration: 12 data types (fixed and variable length; NaN/-0.0/non-empty-string fills), rank 0..3, regular (ragged edge) and rectangular grids, 4 key encodings, "
                "root/nested paths, chains over every registered lossless codec (transpose, squeeze, bytes both endians, packbits, pcodec, vlen, vlen_v2, vlen-utf8/bytes, sharding nested to depth 2 "
                "with both index locations, gzip, zstd, blosc, bz2, zlib, gdeflate, shuffle, crc32c, fletcher32), store_empty_chunks on/off, stores memory/fs/object_store/opendal/usage-log; "
                "history of 1..12 (thorough 1..40) store_chunk/store_chunks/store_chunk_subset/store_array_subset/erase_chunk/erase_chunks with interleaved reads; then every chunk, the whole array, "
                "all chunks and random regions through the same handle and through a handle re-opened from the stored metadata, and the key listing; each outcome is compared with the model and "
                "with the abstract array; non-trivial = distinct read request returning at least one non-fill element",
        "nontrivial": lambda l: " op retrieve" in l and " -> val " in l,
        "exhaustive": False,
        "trusted_base": COMMON_TB + ["external compressors (flate2, zstd, blosc, bzip2, gdeflate, pco) enter only through the law 'decode(encode x) = x', assumed in the theorems and exercised by the harness",
                                     "Element/ndarray conversions are exercised (C06), not modelled"],
        "assumptions": ["regions and chunk indices in bounds (the quantifier of the property)"],
        "timeout": 3000,
    },
    "C04": {
        "noasync_also": True,
        "lean_props": ["ZarrsModel.Props.C04"],
        "harness": "c04",
        "harness_also": ["c04a"],
        "rule": "C01's configurations and operations with fill-heavy data: half of the writes are entirely fill or differ from fill in one element chosen to be easily confused with it "
                "(sign bit: -0.0 vs 0.0 / NaN sign; lowest bit: NaN payload; fill string repeated twice, extended, truncated, empty), fills biased to non-zero / NaN / -0.0 / non-empty strings, "
                "store_empty_chunks on in a quarter of the cases; the key listing is taken after EVERY operation and compared with the model's key set, then every chunk and region is read back; "
                "non-trivial = distinct key listing or read with at least one stored chunk",
        "nontrivial": lambda l: (" op keys" in l and not l.endswith("keys ~")) or (" op retrieve" in l and " -> val " in l),
        "exhaustive": False,
        "trusted_base": COMMON_TB + ["FillValue::equals_all's 128-bit aligned fast paths are reached only through the correspondence (chunk sizes 1..64 elements at whatever alignment the allocator gives)"],
        "assumptions": ["inner-chunk elision inside shards is observed through reads and through C05's shard parser, not through the key listing"],
    },
    "C18": {
        "lean_props": ["ZarrsModel.Props.C18"],
        "harness": "c18",
        "driver_gen": True,
        "shards": 12,
        "rule": "the Lean driver enumerates the lock-protocol models: EVERY pair of single operations (mem: set, set', partial set, get, ranged get, size, erase; fs: the same without partial set) x "
                "initial value {absent, present} x ALL schedules, plus seeded random programs of 2 threads x <=2 ops, 3 x 1, 3 x <=2 and 2 x <=3 ops with all schedules up to a cap; each schedule is replayed on the "
                "real MemoryStore / FilesystemStore through the yield hooks H1/H2 (one permit = one model step) and the per-thread responses and final value are compared with the model's; for "
                "some schedules a step the model forbids is probed and must block; the driver also re-checks every model history with the executable linearizability checker; "
                "non-trivial = distinct schedule with at least two threads interleaved",
        "nontrivial": lambda l: " sched=" in l and len(set(l.split(" sched=")[1].split(" ")[0].split(","))) > 1,
        "exhaustive": True,
        "exhaustive_scope": "all schedules of all 2-thread single-operation programs over the operation alphabet, both stores, both initial states",
        "trusted_base": COMMON_TB + ["hooks H1/H2 (yield points before every lock acquisition and before the write inside set_impl) under cfg(zarrs_verif)",
                                     "parking_lot / std lock semantics and atomicity of OS file operations inside one critical section are assumed"],
        "assumptions": ["one key (operations on other keys do not touch its map entry, cells or file lock)", "a step that does not complete within 250 ms is reported as blocked"],
        "timeout": 3000,
    },
    "C17": {
        "lean_props": ["ZarrsModel.Props.C17", "ZarrsModel.Props.C17Shard", "ZarrsModel.Props.C17Oob"],
        "harness": "c17",
        "rule": "fixed-size configurations (all chains incl. nested sharding) at concurrency targets {1,2,4,16}: after a random history, the whole array, all chunks, cached and sharded-extension "
                "reads and random multi-chunk regions are read with hook H4 recording every view write (allocation, offset, length) and every publish site; for EVERY published buffer the driver "
                "judges that the recorded writes tile [0,len) (each byte exactly once), and on the plain multi-chunk path that the map equals the model's predicted map; "
                "non-trivial = distinct read whose published buffer was assembled from at least two writes",
        "nontrivial": lambda l: " wmaps=" in l and "," in l.split(" wmaps=")[1],
        "exhaustive": False,
        "trusted_base": COMMON_TB + ["hook H4 (view.write / view.publish / view.discard events in ArrayBytesFixedDisjointView and at the 7 publish sites) under cfg(zarrs_verif)",
                                     "writes that bypass ArrayBytesFixedDisjointView (raw pointer writes, external codecs writing into buffers) are not observable"],
        "assumptions": ["fixed-size data types (variable-size outputs are assembled by merge_chunks_vlen, covered by C01/C06 value comparison)"],
    },
    "C16": {
        "lean_props": ["ZarrsModel.Props.C16", "ZarrsModel.Props.C16Shard", "ZarrsModel.Props.C16Conc"],
        "harness": "c16",
        "rule": "(a) C01-style histories at concurrency targets {1,2,3,8,16} x chunk_concurrent_minimum {1,4}, every outcome compared with the sequential model; (b) 2-3 client threads issuing "
                "store/erase/retrieve calls on chunk-disjoint bands of one array through a second handle whose store is wrapped by a turn-taking gate that serialises the store-level operations "
                "in a seeded random order; per-thread results and the final contents are compared with the sequential model; (c) cached reads through all thread-local cache flavours on sharded "
                "arrays (incl. a 64x64 array of four 32x32 shards with 256 inner chunks each, fresh cache per read, rayon pools of 1,2,3,5 threads) with hook H5 reporting deterministically whether a cache "
                "lock is held while its fill closure runs; non-trivial = distinct parallel section or read with a value outcome",
        "nontrivial": lambda l: (" -> par " in l) or (" op retrieve" in l and " -> val " in l) or (" op tl_cached" in l and " -> val " in l),
        "exhaustive": False,
        "trusted_base": COMMON_TB + ["hook H5 (try_lock probes in the thread-local caches and at the start of fill closures) under cfg(zarrs_verif)",
                                     "rayon's work-stealing schedule and real blocking are not in the model; the interleavings of store-level operations in (b) are sampled, the theorem covers all of them"],
        "assumptions": ["client regions are chunk-disjoint (the documented condition for safe parallel use)"],
        "timeout": 3000,
    },
    "C03": {
        "lean_props": ["ZarrsModel.Props.C03", "ZarrsModel.Props.C03PackBits", "ZarrsModel.Props.C03Lossy", "ZarrsModel.Props.C03Vlen", "ZarrsModel.Props.C03Chain", "ZarrsModel.Props.C03Fso"],
        "harness": "c03",
        "rule": "random codec chains built from metadata JSON (transpose with random order, squeeze, bytes both endians, packbits, pcodec, vlen/vlen_v2/vlen-utf8/vlen-bytes, crc32c, fletcher32, shuffle, "
                "gzip 0-9, zstd 1-19 +-checksum, blosc x6 compressors, bz2 1-9, zlib 0-9, gdeflate 0-12) x 12 data types x shapes of rank 1-3 with size-1 dims (every 40th case a 500..9000-element chunk to "
                "cross compressor block and page boundaries) x payload classes (incompressible random, constant, all fill, extremes, low entropy, mixed, empty strings): CodecChain::encode -> decode "
                "must return the input, the encoded length must honour encoded_representation (fixed = equal, bounded = at most), every array-to-array codec's advertised shape mapping is checked, and "
                "for chains of modelled codecs the encoded bytes are compared byte for byte with the Lean model; non-trivial = distinct chain+payload whose round trip was checked",
        "nontrivial": lambda l: " -> val rt=" in l,
        "exhaustive": False,
        "trusted_base": COMMON_TB + ["external compressors (flate2, zstd, blosc, bzip2, gdeflate, pco) and packbits/vlen are TESTS (round trip + declared size), not theorems; only bytes/transpose/squeeze/crc32c/fletcher32/shuffle/sharding layout are proved"],
        "assumptions": ["lossy codecs (zfp, fixedscaleoffset, bitround) are not exercised here"],
    },
    "C15": {
        "lean_props": ["ZarrsModel.Props.C15", "ZarrsModel.Props.C15Entry"],
        "harness": "c15",
        "rule": "five configuration families (checksum outermost; checksum inside a compressor; sharding outermost with plain index; with crc32c index; random chains) x after a write history, for 2-3 chunks: "
                "EVERY byte position of the stored value (<=256 bytes, else first/last 64 + 128 random) x masks {01,80,ff}; 20-60 multi-byte corruptions; EVERY truncation length; extensions by 1..17 bytes; "
                "8 adversarial shard index entries (near u64::MAX, offset+size overflowing, far past the end) written into the raw index; after each alteration 8 read routes (chunk, if-exists, array subset, "
                "cached, first/last element subset, two-region partial decoder, sharded-extension subset) run under catch_unwind in a child process; the harness tallies panic / different-data / same / error "
                "against the pristine reads and the driver requires: no panic ever; checksum outermost + single byte => every full read is an error; checksum present => never different data; truncated "
                "below the index size => error on every route; live index entry outside the value => error on every full read; non-trivial = distinct tally with at least one alteration",
        "nontrivial": lambda l: " -> sum n=" in l and " -> sum n=0 " not in l,
        "exhaustive": True,
        "exhaustive_scope": "all single-byte positions x 3 masks and all truncation lengths of the chosen stored values (values <= 256 / 200 bytes)",
        "trusted_base": COMMON_TB + ["absence of panics/aborts inside external codecs on arbitrary bytes is explored (fuzzed), not proved"],
        "assumptions": ["partial reads through a checksum codec do not validate the checksum (by design of the codec); only no-panic is required of them"],
        "timeout": 3000,
    },
    "C02": {
        "noasync_also": True,
        "lean_props": ["ZarrsModel.Props.C02", "ZarrsModel.Props.C02Shard", "ZarrsModel.Props.C01Vlen", "ZarrsModel.Props.C02PackBits"],
        "harness": "c02",
        "harness_also": ["c02s", "c02v", "c02p"],
        "rule": "random configurations (half sharded, nested sharding, both index locations, checksums/compressors before and after sharding, transposes, squeeze, vlen types, non-cubic chunks and size-1 "
                "dims) with chunks written fully / partly fill / left absent; for up to 3 chunks EVERY sub-box (exhaustive when <=150 boxes, else 60 sampled) is read through retrieve_chunk_subset or the "
                "chunk partial decoder, plus lists of 2-4 regions (sometimes with an empty region) and chunk-crossing retrieve_array_subset; each outcome is compared with the model's full-decode-then-slice "
                "AND the implementation's own full decode + extract_array_subset (same=true required); non-trivial = distinct partial read returning a value",
        "nontrivial": lambda l: (" op pdx" in l or " op retrieve_chunk_subset" in l or " op retrieve_array_subset" in l) and " -> val " in l,
        "exhaustive": True,
        "exhaustive_scope": "all sub-boxes of the sampled chunks whose shape has at most 150 boxes",
        "trusted_base": COMMON_TB + ["the sharding partial decoder and the external codecs' own partial decoders (blosc getitem) are corresponded, not modelled"],
        "assumptions": ["regions in bounds of the chunk"],
    },
    "C20": {
        "lean_props": ["ZarrsModel.Props.C20", "ZarrsModel.Props.C20Ops", "ZarrsModel.Props.C20List", "ZarrsModel.Props.C20PE"],
        "harness": "c20",
        "rule": "C01 configurations; after a short history, for each of 2-5 write operations (all six kinds) and reads: the operation is run through a fault-injecting store wrapper at concurrency 1; first "
                "fault-free to count its N store operations and record the intended final state, then for EVERY k <= N with the k-th store operation failing: the result must be an error (never ok, never "
                "a panic), every key must hold its previous or its intended value, and a fault-free retry must reach the fault-free final state; for reads additionally a failed cached read (decoded and "
                "encoded caches) followed by a successful one must return the right data; array/group metadata methods (store_metadata, open, group create/open/erase, erase_metadata) are swept the same "
                "way; non-trivial = distinct sweep with N >= 1",
        "nontrivial": lambda l: " faults n=" in l and " faults n=0 " not in l,
        "exhaustive": True,
        "exhaustive_scope": "every fault position k of every swept operation (concurrency target 1)",
        "trusted_base": COMMON_TB + ["the fault-injecting wrapper is harness code; with internal parallelism the set of per-chunk operations completed before a failure is covered by the theorem (any sub-list), not by the sweep"],
        "assumptions": ["a failing store operation has no effect on the store (it fails before acting)"],
        "timeout": 3000,
    },
    "C05": {
        "noasync_also": True,
        
        "lean_props": ["ZarrsModel.Props.C05", "ZarrsModel.Props.C05Chain"],
        "harness": "c05",
        "rule": "random configurations (two thirds sharded: both index locations, plain / big-endian / crc32c index, nested shards, compressed or checksummed inner and outer chains; one third unsharded chains) "
                "with experimental_partial_encoding ON; starting from absent or existing whole-chunk values, histories of 1-8 (thorough 1-12) chunk-subset and array-subset writes (growing, to-fill, small "
                "constants, overlapping); every read is compared with the model of the full-rewrite semantics (= the same history with partial encoding off), then again through a re-opened handle; after "
                "every chunk-subset write and at the end the RAW stored value of the chunk is handed to the Lean driver: a non-sharded value of a fully modelled chain must equal the model's encoding byte for "
                "byte; an outermost shard must pass the independent layout parser (index at its declared location, live entries inside the value, outside the index, pairwise disjoint; sentinel only for "
                "all-fill inner chunks); non-trivial = distinct read or raw judgement after at least one subset write",
        "nontrivial": lambda l: (" op raw" in l and " -> raw " in l and not l.endswith("none")) or (" op retrieve" in l and " -> val " in l),
        "exhaustive": False,
        "trusted_base": COMMON_TB + ["raw values behind an outer compressor are only checked through reads (the compressor is a parameter)"],
        "assumptions": ["key presence is not compared (partial encoders erase empty values); contents are"],
        "timeout": 3000,
    },
}
