"""Per-property configuration of ./check (lean modules, harness sub-command, coverage rule, trusted base)."""

COMMON_TB = [
    "correspondence check: Rust harness (/verif/harness, unverified) executes generated cases on /repo's working tree; "
    "Lean driver (/verif/lean/Driver.lean + ZarrsModel/Driver/*, unverified parsing/printing glue around the verified "
    "definitions) replays them through the model; agreement outside the explored cases is assumed",
    "the Lean model is a hand translation of the Rust source (Nat for u64/usize; overflow outside the model)",
]

def _n_at_least(line, key, k):
    # helper: numeric `key=` field at least k
    import re
    m = re.search(r"\b%s=(\d+)" % key, line)
    return bool(m) and int(m.group(1)) >= k

PROPS = {
    "C09": {
        "lean_props": ["ZarrsModel.Props.C09"],
        "harness": "c09",
        "rule": "exhaustive enumeration of array shapes (rank 0..3, extents 0..3; thorough: rank 4 extents 0..2) x every in-bounds "
                "subset x {indices, linearised, contiguous, contiguous-linearised, byte ranges, extract, chunks, rayon split trees, "
                "forward/backward/mixed direction patterns} + sampled/exhaustive subset pairs for overlap/inbounds + rank-mismatch stream + "
                "large extents near 2^31..2^40; non-trivial = distinct request whose implementation outcome is a value (not err/panic) "
                "and whose subset is non-empty (no 0 in shape=)",
        "nontrivial": lambda l: " -> val" in l and not __import__("re").search(r"shape=[0-9,]*\b0\b", l.split(" -> ")[0]),
        "exhaustive": True,
        "exhaustive_scope": "all (array shape, in-bounds subset) pairs with rank<=3 and extents<=3 (rank 3: extents<=2 in quick tier)",
        "trusted_base": COMMON_TB,
        "assumptions": ["u64 wrap-around excluded (extents and products below 2^64)",
                        "rayon's bridge is exercised only through Producer::split_at/into_iter (the public plumbing API)"],
    },
}
