#!/usr/bin/env python3
"""Confirm seeded changes independently of the sub-agents' own reports: in a scratch worktree of /repo (under /tmp),
apply each patch, drop its demonstration into the crate's tests/ directory and run it (must FAIL), undo the patch and
run it again (must PASS).  Results are written into seeded/<name>/meta.json ("confirmed")."""
import glob, json, os, subprocess, sys, shutil
ROOT = os.path.dirname(os.path.dirname(os.path.abspath(__file__)))
WT = "/tmp/seedconfirm"
def sh(cmd, **kw):
    return subprocess.run(cmd, shell=True, capture_output=True, text=True, **kw)
def main():
    names = sys.argv[1:] or sorted(os.path.basename(d) for d in glob.glob(os.path.join(ROOT, "seeded", "*_m*")))
    if not os.path.exists(WT):
        r = sh("git -C /repo worktree add -q --detach %s HEAD" % WT)
        if r.returncode: print(r.stderr); return 1
    env = "CARGO_TARGET_DIR=%s/target CARGO_NET_OFFLINE=true" % WT
    for name in names:
        d = os.path.join(ROOT, "seeded", name)
        if not os.path.exists(os.path.join(d, "demo.rs")): print(name, "no demo"); continue
        meta = json.load(open(os.path.join(d, "meta.json")))
        crate = meta.get("demo_crate", "zarrs")
        if crate not in ("zarrs", "zarrs_storage", "zarrs_filesystem", "zarrs_metadata", "zarrs_data_type"): crate = "zarrs"
        src = open(os.path.join(d, "demo.rs")).read()
        feats = " --features async" if ("async_" in src and crate == "zarrs") else ""
        tname = name.lower() + "_demo"
        tdir = os.path.join(WT, crate, "tests"); os.makedirs(tdir, exist_ok=True)
        sh("git -C %s checkout -q -- . && git -C %s clean -fdq -- zarrs zarrs_storage zarrs_filesystem zarrs_metadata zarrs_data_type" % (WT, WT))
        shutil.copy(os.path.join(d, "demo.rs"), os.path.join(tdir, tname + ".rs"))
        cmd = "cd %s && %s timeout 900 cargo test --offline -j 6 -p %s --test %s%s 2>&1 | tail -25" % (WT, env, crate, tname, feats)
        pristine = sh(cmd).stdout
        ap = sh("git -C %s apply %s" % (WT, os.path.join(d, "patch.diff")))
        if ap.returncode:
            res = {"applies": False, "error": ap.stderr[-300:]}
        else:
            mutated = sh(cmd).stdout
            ok_p = "test result: ok" in pristine
            bad_m = ("test result: FAILED" in mutated) or ("error: test failed" in mutated) or ("panicked" in mutated)
            res = {"applies": True, "pristine_passes": ok_p, "mutated_fails": bad_m,
                   "pristine_tail": pristine[-400:] if not ok_p else "", "mutated_tail": mutated[-600:] if not bad_m else ""}
        meta["confirmed"] = res
        json.dump(meta, open(os.path.join(d, "meta.json"), "w"), indent=1)
        print(name, res.get("applies"), res.get("pristine_passes"), res.get("mutated_fails"), flush=True)
    sh("git -C %s checkout -q -- . && git -C %s clean -fdq" % (WT, WT))
    return 0
sys.exit(main())
