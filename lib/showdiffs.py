#!/usr/bin/env python3
"""showdiffs.py ops ver [N]: classify DIFF lines by (verb, impl outcome class, model outcome class) and show examples with their cfg"""
import sys, collections, re
ops=open(sys.argv[1]).read().split('\n'); ver=open(sys.argv[2]).read().split('\n')
N=int(sys.argv[3]) if len(sys.argv)>3 else 3
cfg=None; cfgs={}
for i,l in enumerate(ops,1):
    if ' cfg ' in l: cfg=l
    cfgs[i]=cfg
c=collections.Counter(); ex=collections.defaultdict(list); seen=set()
FIRST='--all' not in sys.argv
for v in ver:
    if v.startswith('DIFF'):
        parts=v.split(' ',2); n=int(parts[1]); l=ops[n-1]
        if FIRST and cfgs[n] in seen: continue
        seen.add(cfgs[n])
        verb=l.split()[2] if len(l.split())>2 else '?'
        impl=l.split(' -> ')[1].split(' ')[0] if ' -> ' in l else '?'
        model=parts[2].replace('model=','').split(' ')[0]
        k=(verb,impl,model); c[k]+=1
        if len(ex[k])<N: ex[k].append((n,re.sub(r'meta=\S+','',cfgs[n] or ''),l[:300],parts[2][:300]))
for k,n in c.most_common():
    print(n,k)
    for e in ex[k]:
        print('   ',e[0],e[1]); print('      ',e[2]); print('      ',e[3])
