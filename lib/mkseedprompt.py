#!/usr/bin/env python3
"""Write the prompt for a seeding sub-agent (round N): only the property record, its scratch worktree and an avoid-list of
sites already used by earlier seeded changes.  usage: mkseedprompt.py <root, e.g. /tmp/seed2> Cxx [Cyy ...]"""
import json, os, sys, glob
ROOT = os.path.dirname(os.path.dirname(os.path.abspath(__file__)))
TEMPLATE = open(os.path.join(ROOT, "lib", "seedprompt.txt")).read()
def main():
    root = sys.argv[1]
    props = {json.loads(l)["id"]: json.loads(l) for l in open(os.path.join(ROOT, "properties.jsonl")) if l.strip()}
    for pid in sys.argv[2:]:
        avoid = []
        for d in sorted(glob.glob(os.path.join(ROOT, "seeded", pid + "_m*"))):
            try: m = json.load(open(os.path.join(d, "meta.json")))
            except Exception: continue
            avoid.append("- %s: %s" % (", ".join(m.get("files", [])), (m.get("summary", "") or "")[:260].replace("\n", " ")))
        out = os.path.join(root, pid + "_out"); os.makedirs(out, exist_ok=True)
        json.dump(props[pid], open(os.path.join(out, "property.json"), "w"), indent=1)
        text = TEMPLATE.replace("{PID}", pid).replace("{ROOT}", root).replace("{PROPERTY}", json.dumps(props[pid], indent=1)).replace("{AVOID}", "\n".join(avoid) or "(none)")
        open(os.path.join(out, "prompt.txt"), "w").write(text)
        print(os.path.join(out, "prompt.txt"))
main()
