#!/usr/bin/env python3
"""False-alarm test: apply semantics-preserving changes (harmless/<name>/patch.diff, written by sub-agents that saw only
the property texts) to /repo, run the checks (quick tier) and undo.  Every check must PASS: a VIOLATION here is a false
alarm of the machinery.  usage: harmcheck.py [--combine] <name> [<name> ...] [--checks=C01,C02]
--combine applies all the named patches together (one run); without it one run per patch."""
import json, os, subprocess, sys
ROOT = os.path.dirname(os.path.dirname(os.path.abspath(__file__)))
CRATES = ["zarrs", "zarrs_storage", "zarrs_metadata", "zarrs_data_type", "zarrs_filesystem", "zarrs_object_store", "zarrs_opendal", "zarrs_zip", "zarrs_http"]
def undo():
    subprocess.run(["git", "-C", "/repo", "checkout", "--", "."])
    subprocess.run(["git", "-C", "/repo", "clean", "-fdq", "--"] + CRATES)
def run(names, checks, tag):
    st = subprocess.run(["git", "-C", "/repo", "status", "--porcelain"], capture_output=True, text=True).stdout.strip()
    if st: print("refusing: /repo is not clean:\n" + st); return None
    for n in list(names):
        r = subprocess.run(["git", "-C", "/repo", "apply", os.path.join(ROOT, "harmless", n, "patch.diff")], capture_output=True, text=True)
        if r.returncode != 0:
            if "--greedy" in sys.argv:
                print("patch %s skipped: does not apply on top of the others / the current tree" % n); names.remove(n); continue
            print("patch %s does not apply (%s)" % (n, r.stderr.strip()[:200])); undo(); return None
    out = os.path.join(ROOT, "work", "harmruns", tag); os.makedirs(out, exist_ok=True)
    res = {}
    try:
        env = dict(os.environ); env["VERIF_OUT_DIR"] = out
        for p in checks:
            r = subprocess.run([os.path.join(ROOT, "check"), p, "--tier", "quick"], capture_output=True, text=True, env=env)
            lines = [l for l in r.stdout.split("\n") if l.startswith(("VIOLATION", "PASS"))]
            res[p] = {"rc": r.returncode, "lines": [l[:300] for l in lines]}
            print(tag, p, "rc=%d" % r.returncode, "; ".join(l[:160] for l in lines), flush=True)
    finally:
        undo()
    return res
def main():
    a = [x for x in sys.argv[1:] if not x.startswith("--")]
    checks = [c["property_id"] for c in json.load(open(os.path.join(ROOT, "MANIFEST.json")))["checks"]]
    for x in sys.argv[1:]:
        if x.startswith("--checks="): checks = x.split("=", 1)[1].split(",")
    groups = [a] if "--combine" in sys.argv else [[n] for n in a]
    for g in groups:
        tag = "+".join(g) if len(g) < 4 else g[0].split("_")[0] + "_all"
        res = run(g, checks, tag)
        if res is None: continue
        alarms = sorted(p for p, v in res.items() if v["rc"] != 0)
        for n in g:
            mp = os.path.join(ROOT, "harmless", n, "meta.json")
            try: m = json.load(open(mp))
            except Exception: m = {}
            m.setdefault("runs", []).append({"applied_with": g, "checks": sorted(res), "alarms": alarms})
            json.dump(m, open(mp, "w"), indent=1)
        print(tag, "ALARMS:" if alarms else "no alarm", alarms, flush=True)
main()
